#!/venv/bin/python
"""
Master of the deterministic simulation checks.

  run_check.py <PROP> --tier quick|thorough [--runs N] [--jobs J] [--keep-work]

Exit codes:  0 property held on everything explored (KNOWN-FINDING lines allowed)
             1 VIOLATION property=<id> replay=<path>
             2 HARNESS-ERROR (timeout, worker death, nondeterminism) - never a verdict about the property
"""

import argparse
import importlib
import json
import os
import random
import shutil
import subprocess
import sys
import time

HERE = os.path.dirname(os.path.abspath(__file__))
if HERE not in sys.path:
    sys.path.insert(0, HERE)
PY = "/venv/bin/python" if os.path.exists("/venv/bin/python") else sys.executable
WORKER = os.path.join(HERE, "worker.py")
REPO = os.environ.get("VERIF_REPO", "/repo")
N_LANES = 16
GUARD = "DATA_ALGEBRA_VERIF"
REPLAYS = os.environ.get("VERIF_REPLAY_DIR", os.path.join(HERE, "replays"))


def log(msg: str):
    print(msg, flush=True)


def child_env(hashseed: int):
    env = dict(os.environ)
    env.update({
        "PYTHONHASHSEED": str(hashseed), "POLARS_MAX_THREADS": "1", "OMP_NUM_THREADS": "1",
        "OPENBLAS_NUM_THREADS": "1", "MKL_NUM_THREADS": "1", "NUMEXPR_NUM_THREADS": "1",
        "PYTHONDONTWRITEBYTECODE": "1", GUARD: "1",
    })
    env.pop("VERIF_REEXEC", None)
    if SRC_COPY:
        env["PYTHONPATH"] = SRC_COPY + (os.pathsep + env["PYTHONPATH"] if env.get("PYTHONPATH") else "")
        env["VERIF_EXPECT_REPO"] = os.path.realpath(SRC_COPY)
    else:
        env["VERIF_EXPECT_REPO"] = os.path.realpath(REPO)
    return env


SRC_COPY = None


def rebuild(work: str):
    """checks must rebuild from /repo's working tree (DESIGN 3.2): every check copies the current sources of the package
    into its own work directory, byte-compiles the copy (a source that does not compile is reported at once) and puts
    the copy first on its workers' PYTHONPATH - so no __pycache__ entry lying around in /repo can be imported instead
    of the current source, and nothing is written into /repo."""
    global SRC_COPY
    t0 = time.monotonic()
    SRC_COPY = os.path.join(work, "src")
    shutil.copytree(os.path.join(REPO, "data_algebra"), os.path.join(SRC_COPY, "data_algebra"),
                    ignore=shutil.ignore_patterns("__pycache__", "*.pyc"))
    r = subprocess.run([PY, "-m", "compileall", "-q", "-f", os.path.join(SRC_COPY, "data_algebra")],
                       stdout=subprocess.PIPE, stderr=subprocess.STDOUT, text=True, timeout=300)
    if r.returncode != 0:
        log("HARNESS-ERROR: " + REPO + "/data_algebra does not compile:\n" + r.stdout[-2000:])
        sys.exit(2)
    return time.monotonic() - t0


def load_known(prop: str):
    p = os.path.join(HERE, "known_findings.json")
    if not os.path.exists(p):
        return []
    with open(p) as f:
        doc = json.load(f)
    return [e for e in doc.get("findings", []) if e.get("property") == prop]


def run_worker(args, hashseed, timeout):
    return subprocess.run([PY, WORKER] + args, env=child_env(hashseed), stdout=subprocess.PIPE,
                          stderr=subprocess.PIPE, text=True, timeout=timeout)


def main() -> int:
    ap = argparse.ArgumentParser()
    ap.add_argument("prop")
    ap.add_argument("--tier", default=os.environ.get("VERIF_TIER", "quick"), choices=["quick", "thorough"])
    ap.add_argument("--runs", type=int, default=None)
    ap.add_argument("--jobs", type=int, default=min(N_LANES, os.cpu_count() or 1))
    ap.add_argument("--keep-work", action="store_true")
    ap.add_argument("--no-evidence", action="store_true")
    ap.add_argument("--max-report", type=int, default=None)
    a = ap.parse_args()
    prop = a.prop.upper()
    seed = int(os.environ.get("VERIF_SEED", "0") or 0)
    t_start = time.monotonic()
    mod = importlib.import_module("sim.props." + prop.lower())
    tier = dict(mod.TIERS[a.tier])
    if a.runs is not None:
        tier["runs"] = a.runs
    if a.max_report is not None:
        tier["max_report"] = a.max_report
    work = os.path.join(HERE, ".work", f"{prop}-{a.tier}-{os.getpid()}")
    os.makedirs(work, exist_ok=True)
    compile_s = rebuild(work)
    rc = 2
    try:
        rc = _main(a, prop, seed, mod, tier, work, t_start, compile_s)
    finally:
        if not a.keep_work:
            shutil.rmtree(work, ignore_errors=True)
    return rc


def _main(a, prop, seed, mod, tier, work, t_start, compile_s) -> int:
    runs = int(tier["runs"])
    base = seed * (2 ** 20)
    mrng = random.Random(f"{seed}/hashseeds")
    hashseeds = [mrng.randrange(1, 2 ** 32 - 1) for _ in range(N_LANES)]
    n_echo = int(tier.get("n_echo", 8))
    n_echo_b = int(tier.get("n_echo_b", n_echo))
    lanes = []
    n_b_lanes = max(1, int(tier.get("echo_b_lanes", 1)))  # echoB_j re-runs the first seeds of lane j under lane j+1's hash seed
    for k in range(N_LANES):
        seeds = [base + i for i in range(runs) if i % N_LANES == k]
        if not seeds:
            continue
        ne_k = max(n_echo if k == 0 else 0, n_echo_b if k < n_b_lanes else 0)
        cfg = {"lane": k, "hashseed": hashseeds[k], "seeds": seeds, "gen": tier.get("gen", {}),
               "soft_deadline_s": tier.get("soft_deadline_s", 600), "hard_timeout_s": tier.get("hard_timeout_s", 1800),
               "n_echo": ne_k}
        lanes.append((f"lane{k}", cfg))
    n_main = len(lanes)
    echo_defs = [("echoA", 0, hashseeds[0], n_echo)]
    for j in range(min(n_b_lanes, n_main)):
        echo_defs.append((f"echoB{j}" if j else "echoB", j, hashseeds[(j + 1) % N_LANES], n_echo_b))
    for name, src, hs, ne in echo_defs:
        echo_seeds = lanes[src][1]["seeds"][:ne]
        lanes.append((name, {"lane": name, "hashseed": hs, "seeds": echo_seeds, "gen": tier.get("gen", {}),
                             "soft_deadline_s": 1e9, "hard_timeout_s": tier.get("hard_timeout_s", 1800),
                             "echo_only": True, "_src": src}))
    log(f"[{prop}] tier={a.tier} VERIF_SEED={seed} runs={runs} lanes={n_main}+{len(lanes) - n_main}echo jobs={a.jobs} "
        f"recompiled /repo/data_algebra in {compile_s:.1f}s")
    # ---- run lanes, at most a.jobs at a time
    pending = list(lanes)
    running = []
    outs = {}
    hard = float(tier.get("hard_timeout_s", 1800)) + 60
    t0 = time.monotonic()
    failed = None
    while pending or running:
        while pending and len(running) < a.jobs + (len(lanes) - n_main):
            name, cfg = pending.pop(0)
            cp = os.path.join(work, name + ".cfg.json")
            op = os.path.join(work, name + ".jsonl")
            with open(cp, "w") as f:
                json.dump(cfg, f)
            err = open(os.path.join(work, name + ".err"), "w")
            p = subprocess.Popen([PY, WORKER, "lane", prop, cp, op], env=child_env(cfg["hashseed"]),
                                 stdout=err, stderr=err)
            running.append((name, p, err))
            outs[name] = op
        time.sleep(0.05)
        still = []
        for name, p, err in running:
            r = p.poll()
            if r is None:
                still.append((name, p, err))
            else:
                err.close()
                if r != 0:
                    failed = (name, r)
        running = still
        if failed or time.monotonic() - t0 > hard:
            for _, p, err in running:
                p.kill()
                err.close()
            if failed:
                name, r = failed
                with open(os.path.join(work, name + ".err")) as f:
                    tail = f.read()[-3000:]
                log(f"HARNESS-ERROR: worker {name} exited {r}\n{tail}")
            else:
                log(f"HARNESS-ERROR: wall timeout after {hard:.0f}s")
            return 2
    lane_wall = time.monotonic() - t0
    # ---- collect
    summaries = {}
    records = {}
    violations = []
    harness_errors = []
    for name, _ in lanes:
        recs = []
        summ = None
        with open(outs[name]) as f:
            for line in f:
                d = json.loads(line)
                if d.get("summary"):
                    summ = d
                else:
                    recs.append(d)
        if summ is None:
            log(f"HARNESS-ERROR: worker {name} wrote no summary")
            return 2
        summaries[name] = summ
        records[name] = recs
        if not name.startswith("echo"):
            for d in recs:
                if d["verdict"] == "violation":
                    violations.append(d)
                elif d["verdict"] == "harness-error":
                    harness_errors.append(d)
    if harness_errors:
        d = harness_errors[0]
        os.makedirs(os.path.join(REPLAYS, prop), exist_ok=True)
        hp = os.path.join(REPLAYS, prop, f"harness-error-{d['seed']}.json")
        with open(hp, "w") as f:
            json.dump({"scenario": d["scenario"]}, f)
        log(f"HARNESS-ERROR: {len(harness_errors)} run(s) raised inside the harness; first seed={d['seed']} "
            f"scenario={hp}\n{d['trace']}")
        return 2
    # ---- determinism sample (same seeds: same hash seed twice => same log; other hash seed => same scenario)
    det_checked = 0
    cross_violations = []
    main0 = {d["seed"]: d for d in records["lane0"]}
    for d in records["echoA"]:
        m = main0.get(d["seed"])
        if m is None:
            continue
        det_checked += 1
        if (m["scen"], m["log"], m["verdict"]) != (d["scen"], d["log"], d["verdict"]):
            log(f"HARNESS-ERROR: nondeterminism: seed {d['seed']} replayed differently in a fresh interpreter "
                f"under the same hash seed: {m['scen']}/{m['log']}/{m['verdict']} vs {d['scen']}/{d['log']}/{d['verdict']}")
            return 2
    cross_pairs = {}
    n_cross_checked = 0
    for name, cfg in lanes:
        if not name.startswith("echoB"):
            continue
        src = cfg["_src"]
        mainj = {d["seed"]: d for d in records[f"lane{src}"]}
        for d in records[name]:
            m = mainj.get(d["seed"])
            if m is None:
                continue
            n_cross_checked += 1
            if m["scen"] != d["scen"]:
                log(f"HARNESS-ERROR: generator depends on PYTHONHASHSEED: seed {d['seed']}: {m['scen']} vs {d['scen']}")
                return 2
            if getattr(mod, "LOG_HASHSEED_INDEPENDENT", False) and (m["log"], m["verdict"]) != (d["log"], d["verdict"]):
                if getattr(mod, "CROSS_HASHSEED_IS_VIOLATION", False) and m["verdict"] == "ok" and d["verdict"] == "ok":
                    cross_violations.append(d["seed"])
                    cross_pairs[d["seed"]] = [hashseeds[src], cfg["hashseed"]]
                    continue
                log(f"HARNESS-ERROR: event log depends on PYTHONHASHSEED: seed {d['seed']}")
                return 2
    # ---- aggregate reach
    agg = {"runs": 0, "ok": 0, "violations": 0, "nontrivial": 0, "steps": 0}
    faults, probes = {}, {}
    states, trigrams, scens = set(), set(), set()
    truncated = False
    samples = []
    for name, _ in lanes:
        if name.startswith("echo"):
            continue
        s = summaries[name]
        for k in agg:
            agg[k] += s[k]
        for k, v in s["faults"].items():
            faults[k] = faults.get(k, 0) + v
        for k, v in s["probes"].items():
            probes[k] = probes.get(k, 0) + v
        states.update(s["states"])
        trigrams.update(s["trigrams"])
        scens.update(s["scens"])
        truncated = truncated or s["truncated"]
        samples.extend(s["samples"])
    # ---- violations: group by signature, minimise, replay fresh, match against known findings
    known = load_known(prop)
    open_known = {e["signature"]: e for e in known if e.get("status") == "open"}
    by_sig = {}
    for d in violations:
        by_sig.setdefault("|".join(d["sig"]), []).append(d)
    exit_code = 0
    out_lines = []
    known_matched = {}
    new_sigs = []
    for sig in sorted(by_sig):
        if sig in open_known:
            known_matched[sig] = len(by_sig[sig])
        else:
            new_sigs.append(sig)
    max_report = int(tier.get("max_report", 4))
    for sig in new_sigs[:max_report]:
        cases = sorted(by_sig[sig], key=lambda d: (len(json.dumps(d["scenario"])), d["seed"]))
        d = cases[0]
        replay = _minimise_and_replay(prop, d, work, tier)
        if replay is None:
            return 2
        path, detail = replay
        out_lines.append(f"VIOLATION property={prop} replay={path}")
        log(f"  signature: {sig}\n  seed: {d['seed']} (+{len(cases) - 1} more runs with this signature)\n  detail: {detail}")
        exit_code = 1
    for sig in new_sigs[max_report:]:
        d = sorted(by_sig[sig], key=lambda d: d["seed"])[0]
        os.makedirs(os.path.join(REPLAYS, prop), exist_ok=True)
        from sim.core import digest
        path = os.path.join(REPLAYS, prop, digest(sig, 12) + "-unminimised.json")
        with open(path, "w") as f:
            json.dump({"property": prop, "signature": d["sig"], "scenario": d["scenario"]}, f, indent=1, sort_keys=True)
        out_lines.append(f"VIOLATION property={prop} replay={path}")
        log(f"  signature: {sig} (not minimised: report cap) seed: {d['seed']}")
        exit_code = 1
    # ---- results that differ between two interpreters with different PYTHONHASHSEED (C19 I3)
    if cross_violations:
        sd = cross_violations[0]
        scn = mod.generate(sd, tier.get("gen", {}))
        pair = cross_pairs.get(sd, [hashseeds[0], hashseeds[1 % N_LANES]])
        scn["hashseed"] = pair[0]
        os.makedirs(os.path.join(REPLAYS, prop), exist_ok=True)
        path = os.path.join(REPLAYS, prop, f"cross-hashseed-{sd}.json")
        sig = [prop, "cross-process", "result-depends-on-PYTHONHASHSEED"]
        with open(path, "w") as f:
            json.dump({"property": prop, "signature": sig, "scenario": scn,
                       "cross_hashseed": pair}, f, indent=1, sort_keys=True)
        if "|".join(sig) in open_known:
            known_matched["|".join(sig)] = len(cross_violations)
        else:
            out_lines.append(f"VIOLATION property={prop} replay={path}")
            log(f"  signature: {'|'.join(sig)}\n  seeds: {cross_violations[:8]} (per-operation result digests differ "
                f"between PYTHONHASHSEED={pair[0]} and {pair[1]})")
            new_sigs.append("|".join(sig))
            by_sig["|".join(sig)] = []
            exit_code = 1
    # ---- known findings: each open entry is re-checked from its committed replay file on every run
    known_lines = []
    open_entries = [e for e in known if e.get("status") == "open"]
    reproduced = {}
    groups = {}
    for e in open_entries:
        rp = os.path.join(HERE, e["replay"]) if e.get("replay") else None
        if rp and os.path.exists(rp):
            with open(rp) as f:
                hs = json.load(f)["scenario"]["hashseed"]
            groups.setdefault(hs, []).append((e, rp))
    for hs, items in sorted(groups.items()):
        r = run_worker(["replaymany"] + [rp for _, rp in items], hs, 900)
        got = {}
        for line in r.stdout.splitlines():
            try:
                d = json.loads(line)
                got[d.get("path")] = d
            except Exception:
                pass
        for e, rp in items:
            d = got.get(rp)
            if d is None or d.get("verdict") == "harness-error":
                log(f"HARNESS-ERROR: known-finding replay {rp} did not run:\n{r.stdout[-1500:]}\n{r.stderr[-1500:]}")
                return 2
            reproduced[e["signature"]] = d.get("verdict") == "violation" and "|".join(d.get("sig") or []) == e["signature"]
    for e in open_entries:
        if reproduced.get(e["signature"]) or e["signature"] in known_matched:
            known_lines.append(f"KNOWN-FINDING: property={prop} {e['what']} [signature {e['signature']}; "
                               f"replay {e.get('replay')}; sampled runs hitting it: {known_matched.get(e['signature'], 0)}]")
        else:
            log(f"note: known finding no longer reproduces (stale entry?): {e['signature']}")
    for ln in known_lines:
        log(ln)
    for ln in out_lines:
        log(ln)
    wall = time.monotonic() - t_start
    # ---- evidence
    zero_probes = [p for p in getattr(mod, "EXPECTED_PROBES", []) if probes.get(p, 0) == 0]
    for p in zero_probes:
        log(f"warning: probe '{p}' stayed at zero in this batch")
    if not a.no_evidence:
        ev = {
            "property_id": prop, "tier": a.tier, "seed": seed, "level": mod.LEVEL,
            "coverage": {
                "evaluations": agg["runs"],
                "distinct_nontrivial": len(scens),
                "rule": mod.RULE,
                "samples": samples[:3],
                "runs_per_hour": int(agg["runs"] / max(lane_wall, 1e-6) * 3600),
                "seed_range": [base, base + runs - 1],
                "truncated_by_soft_deadline": truncated,
                "hashseeds": hashseeds,
                "lanes": N_LANES, "jobs": a.jobs,
                "logical_steps": agg["steps"],
                "simulated_time_note": "the system has no clock; simulated time = logical steps (event sequence numbers)",
                "faults_fired": faults,
                "probes": probes,
                "probes_stuck_at_zero": zero_probes,
                "distinct_states": len(states),
                "distinct_op_trigrams": len(trigrams),
                "determinism_sample": {"seeds_replayed_twice_same_hashseed": det_checked,
                                       "seeds_regenerated_other_hashseed": n_cross_checked},
                "components": mod.COMPONENTS,
                "known_findings_matched": known_matched,
                "violating_runs": agg["violations"],
                "distinct_violation_signatures": sorted(by_sig),
            },
            "assumptions": mod.ASSUMPTIONS,
            "wall_s": round(wall, 2),
            "violations": len(new_sigs),
        }
        os.makedirs(os.path.join(HERE, "evidence"), exist_ok=True)
        with open(os.path.join(HERE, "evidence", prop + ".json"), "w") as f:
            json.dump(ev, f, indent=1, sort_keys=True)
    log(f"[{prop}] runs={agg['runs']} ok={agg['ok']} violating={agg['violations']} new-signatures={len(new_sigs)} "
        f"known-matched={sum(known_matched.values())} nontrivial-distinct={len(scens)} states={len(states)} "
        f"faults={json.dumps(faults, sort_keys=True)} wall={wall:.1f}s "
        f"({int(agg['runs'] / max(lane_wall, 1e-6) * 3600)} runs/h){' TRUNCATED' if truncated else ''}")
    return exit_code


def _minimise_and_replay(prop, d, work, tier):
    """-> (replay path, detail) or None on harness error"""
    from sim.core import digest

    sig = d["sig"]
    hs = d["scenario"]["hashseed"]
    inp = os.path.join(work, f"min-{d['seed']}.in.json")
    os.makedirs(os.path.join(REPLAYS, prop), exist_ok=True)
    outp = os.path.join(REPLAYS, prop, digest("|".join(sig), 12) + ".json")
    with open(inp, "w") as f:
        json.dump({"scenario": d["scenario"], "sig": sig, "budget_s": tier.get("minimise_budget_s", 45),
                   "max_execs": tier.get("minimise_execs", 2000)}, f)
    try:
        r = run_worker(["minimise", inp, outp], hs, tier.get("minimise_budget_s", 45) + 180)
    except subprocess.TimeoutExpired:
        log("HARNESS-ERROR: minimiser timed out")
        return None
    if r.returncode != 0 or not os.path.exists(outp):
        log(f"HARNESS-ERROR: minimiser failed:\n{r.stdout[-1500:]}\n{r.stderr[-1500:]}")
        return None
    r2 = run_worker(["replay", outp], hs, 600)
    try:
        res = json.loads(r2.stdout.splitlines()[0])
    except Exception:
        log(f"HARNESS-ERROR: replay did not run:\n{r2.stdout[-1500:]}\n{r2.stderr[-1500:]}")
        return None
    if not (res.get("verdict") == "violation" and res.get("sig") == sig and res.get("matches_expected")):
        # minimised file does not replay exactly in a fresh interpreter: report the original scenario instead
        log("HARNESS-ERROR: minimised scenario does not replay identically in a fresh interpreter; "
            "writing the un-minimised scenario")
        with open(outp, "w") as f:
            json.dump({"property": prop, "signature": sig, "scenario": d["scenario"]}, f, indent=1, sort_keys=True)
        r3 = run_worker(["replay", outp], hs, 600)
        try:
            res3 = json.loads(r3.stdout.splitlines()[0])
        except Exception:
            return None
        if not (res3.get("verdict") == "violation" and res3.get("sig") == sig):
            log("HARNESS-ERROR: original scenario does not replay either")
            return None
        return outp, res3.get("detail", "")
    return outp, res.get("detail", "")


if __name__ == "__main__":
    sys.exit(main())
