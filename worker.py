#!/venv/bin/python
"""
Worker process of the simulator (a plain script, never `python -m`, so no module is loaded twice).

  worker.py lane     <PROP> <cfg.json> <out.jsonl>     run a slice of run-seeds, one JSON line per run + summary
  worker.py minimise <scenario.json> <out.json>        delta-debug a failing scenario under its recorded hash seed
  worker.py replay   <scenario.json> [--events]        execute one scenario; prints one JSON result line;
                                                       exit 0 = no violation, 1 = violation, 2 = harness error

Every mode runs under the PYTHONHASHSEED the scenario (or lane) names and re-execs itself if the
environment differs, so a replay is a pure function of the file and the code.
"""

import faulthandler
import importlib
import json
import os
import sys
import time
import traceback

HERE = os.path.dirname(os.path.abspath(__file__))
if HERE not in sys.path:
    sys.path.insert(0, HERE)

PINNED_ENV = {
    "POLARS_MAX_THREADS": "1",
    "OMP_NUM_THREADS": "1",
    "OPENBLAS_NUM_THREADS": "1",
    "MKL_NUM_THREADS": "1",
    "NUMEXPR_NUM_THREADS": "1",
    "PYTHONDONTWRITEBYTECODE": "1",
}


def ensure_env(hashseed: int):
    want = dict(PINNED_ENV)
    want["PYTHONHASHSEED"] = str(int(hashseed))
    if all(os.environ.get(k) == v for k, v in want.items()):
        return
    if os.environ.get("VERIF_REEXEC") == "1":
        raise SystemExit("HARNESS-ERROR: could not establish pinned environment")
    env = dict(os.environ)
    env.update(want)
    env["VERIF_REEXEC"] = "1"
    os.execve(sys.executable, [sys.executable] + sys.argv, env)


def load_prop(prop: str):
    import data_algebra

    exp = os.environ.get("VERIF_EXPECT_REPO")
    got = os.path.realpath(os.path.dirname(os.path.dirname(data_algebra.__file__)))
    if exp and got != exp:
        raise SystemExit(f"HARNESS-ERROR: imported data_algebra from {got}, expected {exp}")
    return importlib.import_module("sim.props." + prop.lower())


class RunTimeout(BaseException):
    """raised by the CPU-time watchdog inside the code under test"""


def execute_guarded(mod, scn):
    """mod.execute(scn) under a CPU-time watchdog (ITIMER_VIRTUAL: user CPU time of this process, so a descheduled or
    frozen worker cannot trip it). A run that burns more CPU than RUN_CPU_LIMIT_S - thousands of times a normal run -
    is reported as a violation 'does-not-terminate' of the property under test, not as a harness error."""
    import signal

    limit = float(getattr(mod, "RUN_CPU_LIMIT_S", 240.0))

    def on_alarm(signum, frame):
        raise RunTimeout()

    old = signal.signal(signal.SIGVTALRM, on_alarm)
    signal.setitimer(signal.ITIMER_VIRTUAL, limit)
    try:
        return mod.execute(scn)
    except RunTimeout:
        return {"verdict": "violation", "sig": [scn["prop"], "run", "does-not-terminate"], "step": None,
                "detail": f"the run used more than {limit:.0f}s of CPU (a normal run takes milliseconds): an operation of the "
                          "code under test does not terminate", "log": "timeout", "steps": 0, "faults": {}, "probes": {},
                "states": [], "trigrams": [], "nontrivial": True}
    finally:
        signal.setitimer(signal.ITIMER_VIRTUAL, 0)
        signal.signal(signal.SIGVTALRM, old)


def scen_digest(scn) -> str:
    from sim.core import digest

    return digest({k: v for k, v in scn.items() if k != "hashseed"}, 16)


def mode_lane(prop: str, cfg_path: str, out_path: str) -> int:
    with open(cfg_path) as f:
        cfg = json.load(f)
    ensure_env(cfg["hashseed"])
    faulthandler.enable()
    hard = cfg.get("hard_timeout_s")
    if hard:
        faulthandler.dump_traceback_later(hard, exit=True)
    mod = load_prop(prop)
    from sim.core import digest

    t0 = time.monotonic()
    soft = cfg.get("soft_deadline_s", 1e9)
    states = set()
    trigrams = set()
    scens = set()
    faults = {}
    probes = {}
    n = ok = viol = nontrivial = steps = 0
    n_hangs = 0
    truncated = False
    samples = []
    nontrivial_scens = set()
    with open(out_path, "w") as out:
        for i, seed in enumerate(cfg["seeds"]):
            if time.monotonic() - t0 > soft or n_hangs >= 3:
                truncated = True  # each hang costs a full watchdog period: three are evidence enough
                break
            scn = mod.generate(seed, cfg.get("gen", {}))
            sd = scen_digest(scn)
            scn["hashseed"] = cfg["hashseed"]
            try:
                res = execute_guarded(mod, scn)
            except Exception:
                out.write(json.dumps({"seed": seed, "verdict": "harness-error", "scen": sd,
                                      "trace": traceback.format_exc()[-3000:], "scenario": scn}) + "\n")
                out.flush()
                n += 1
                continue
            n += 1
            steps += res["steps"]
            scens.add(sd)
            for k, v in res["faults"].items():
                faults[k] = faults.get(k, 0) + v
            for k, v in res["probes"].items():
                probes[k] = probes.get(k, 0) + v
            states.update(res["states"])
            trigrams.update(res["trigrams"])
            if res["nontrivial"]:
                nontrivial += 1
                nontrivial_scens.add(sd)
            rec = {"seed": seed, "verdict": res["verdict"], "scen": sd, "log": res["log"]}
            if res["verdict"] == "violation" and res.get("sig", [""])[-1] == "does-not-terminate":
                n_hangs += 1
            if res["verdict"] == "violation":
                viol += 1
                rec.update({"sig": res["sig"], "detail": res["detail"], "step": res["step"], "scenario": scn})
                out.write(json.dumps(rec) + "\n")
                out.flush()
            else:
                ok += 1
                if i < cfg.get("n_echo", 0) or cfg.get("echo_only"):
                    out.write(json.dumps(rec) + "\n")
            if len(samples) < 1 and res["nontrivial"] and i >= 1:
                samples.append(mod.sample_view(scn))
        summary = {
            "summary": True, "lane": cfg["lane"], "hashseed": cfg["hashseed"], "runs": n, "ok": ok,
            "violations": viol, "nontrivial": nontrivial, "steps": steps, "faults": faults, "probes": probes,
            "states": sorted(states), "trigrams": sorted(trigrams), "scens": sorted(nontrivial_scens),
            "n_scens": len(scens), "truncated": truncated, "wall_s": round(time.monotonic() - t0, 3),
            "samples": samples,
        }
        out.write(json.dumps(summary) + "\n")
    return 0


def mode_minimise(in_path: str, out_path: str) -> int:
    with open(in_path) as f:
        doc = json.load(f)
    scn = doc["scenario"]
    ensure_env(scn["hashseed"])
    faulthandler.enable()
    faulthandler.dump_traceback_later(doc.get("budget_s", 60) + 120, exit=True)
    mod = load_prop(scn["prop"])
    from sim.minimise import Minimiser

    if list(doc["sig"])[-1] == "does-not-terminate":
        # every candidate costs a full watchdog period: keep the scenario as it is
        small = scn
        m = type("M", (), {"execs": 0})()
    else:
        m = Minimiser(mod, tuple(doc["sig"]), budget_s=doc.get("budget_s", 60), max_execs=doc.get("max_execs", 3000))
        small = m.run(scn)
    res = execute_guarded(mod, small)
    doc_out = {"property": scn["prop"], "signature": doc["sig"], "scenario": small,
               "expected": {"verdict": res["verdict"], "sig": res.get("sig"), "log": res["log"],
                            "detail": res.get("detail"), "step": res.get("step")},
               "minimiser_execs": m.execs}
    with open(out_path, "w") as f:
        json.dump(doc_out, f, indent=1, sort_keys=True)
    return 0


def mode_replay(path: str, events: bool) -> int:
    with open(path) as f:
        doc = json.load(f)
    scn = doc["scenario"] if "scenario" in doc else doc
    if doc.get("cross_hashseed") and os.environ.get("VERIF_CROSS_CHILD") != "1":
        return mode_replay_cross(path, doc)
    if os.environ.get("VERIF_CROSS_CHILD") == "1":
        scn["hashseed"] = int(os.environ["PYTHONHASHSEED"])
    ensure_env(scn["hashseed"])
    faulthandler.enable()
    faulthandler.dump_traceback_later(600, exit=True)
    mod = load_prop(scn["prop"])
    try:
        res = execute_guarded(mod, scn)
    except Exception:
        print(json.dumps({"verdict": "harness-error", "trace": traceback.format_exc()[-3000:]}))
        return 2
    res.pop("states", None)
    res.pop("trigrams", None)
    exp = doc.get("expected")
    if exp is not None:
        res["matches_expected"] = bool(
            res["verdict"] == exp["verdict"] and res.get("sig") == exp.get("sig") and res["log"] == exp["log"]
        )
    print(json.dumps(res, sort_keys=True))
    if res["verdict"] == "violation":
        print(f"VIOLATION property={scn['prop']} replay={os.path.abspath(path)}")
        return 1
    return 0


def mode_replay_cross(path: str, doc) -> int:
    """replay a scenario under two PYTHONHASHSEEDs in two fresh interpreters; the event logs (canonical result
    digests per operation) must be identical"""
    import subprocess

    logs = []
    for hs in doc["cross_hashseed"]:
        env = dict(os.environ)
        env.update(PINNED_ENV)
        env.update({"PYTHONHASHSEED": str(hs), "VERIF_CROSS_CHILD": "1"})
        env.pop("VERIF_REEXEC", None)
        r = subprocess.run([sys.executable, os.path.abspath(__file__), "replay", path], env=env,
                           stdout=subprocess.PIPE, stderr=subprocess.PIPE, text=True, timeout=900)
        try:
            res = json.loads(r.stdout.splitlines()[0])
        except Exception:
            print(json.dumps({"verdict": "harness-error", "trace": (r.stdout + r.stderr)[-2000:]}))
            return 2
        logs.append((hs, res["verdict"], res["log"]))
    same = len({(v, l) for _, v, l in logs}) == 1
    prop = doc["scenario"]["prop"]
    out = {"verdict": "ok" if same else "violation", "cross_hashseed": logs,
           "sig": None if same else [prop, "cross-process", "result-depends-on-PYTHONHASHSEED"], "log": logs[0][2]}
    print(json.dumps(out, sort_keys=True))
    if not same:
        print(f"VIOLATION property={prop} replay={os.path.abspath(path)}")
        return 1
    return 0


def mode_replaymany(paths) -> int:
    """replay several scenario files that share one hash seed in a single interpreter: one JSON line per file"""
    docs = []
    for pth in paths:
        with open(pth) as f:
            docs.append((pth, json.load(f)))
    hs = {d["scenario"]["hashseed"] for _, d in docs}
    if len(hs) != 1:
        print(json.dumps({"verdict": "harness-error", "trace": f"replaymany needs one hash seed, got {sorted(hs)}"}))
        return 2
    ensure_env(hs.pop())
    faulthandler.enable()
    faulthandler.dump_traceback_later(900, exit=True)
    rc = 0
    for pth, doc in docs:
        scn = doc["scenario"]
        mod = load_prop(scn["prop"])
        try:
            res = execute_guarded(mod, scn)
        except Exception:
            print(json.dumps({"path": pth, "verdict": "harness-error", "trace": traceback.format_exc()[-1500:]}))
            rc = 2
            continue
        print(json.dumps({"path": pth, "verdict": res["verdict"], "sig": res.get("sig"), "log": res["log"]}))
    return rc


def main(argv) -> int:
    if len(argv) < 2:
        print(__doc__)
        return 2
    mode = argv[1]
    if mode == "lane":
        return mode_lane(argv[2], argv[3], argv[4])
    if mode == "minimise":
        return mode_minimise(argv[2], argv[3])
    if mode == "replay":
        return mode_replay(argv[2], "--events" in argv[3:])
    if mode == "replaymany":
        return mode_replaymany(argv[2:])
    print(__doc__)
    return 2


if __name__ == "__main__":
    sys.exit(main(sys.argv))
