#!/usr/bin/env python3
"""Regenerate /verif/MANIFEST.json (kept valid at all times; run after adding a check)."""
import json
import os

HERE = os.path.dirname(os.path.dirname(os.path.abspath(__file__)))
PURE = ("pure function of (pipeline, input[, options]); no state survives a call, nothing waits, retries or can be "
        "interrupted in a way the property speaks about, so a scheduler/fault injector has nothing to decide - "
        "the deciding technique would be differential/metamorphic property-based testing, which this task does not study")

NA = {
    "C01": "SQLite-vs-Pandas agreement is a " + PURE + ". The only schedule-dependent slice (engine scan order, hash-seed-dependent SQL text) is exercised as schedule/knobs under C18.",
    "C02": "needs a real PostgreSQL 16 server; none exists in the sealed sandbox and a stand-in engine would not be the system the property is about; also a " + PURE,
    "C03": "Polars-vs-Pandas agreement is a " + PURE + "; Polars' thread pool only affects row order, which the property ignores",
    "C04": "formatting options are ordinary arguments of the pure function to_sql(); nothing survives between to_sql calls (fresh NearSQL, temp-id source and CTE cache per call), so there is no history dimension; deciding it is a configuration sweep with a metamorphic oracle. The knobs are randomised per run inside C18/C20 as swarm hygiene only.",
    "C05": "per-method scalar semantics against documentation: " + PURE,
    "C06": "builder simplification vs step-by-step materialisation: operator nodes are immutable after construction, so the step sequence is program structure, not a mutable-state history; " + PURE,
    "C07": "composition/associativity: " + PURE,
    "C08": "declared vs actual column set: " + PURE,
    "C09": "row counts of aggregations: " + PURE,
    "C10": "perturbing unreported columns is input perturbation; calling it a flipped stored byte would be dressing a metamorphic test in simulator vocabulary; " + PURE,
    "C11": "equality implies same behaviour: pure, over pairs of programs; " + PURE,
    "C12": "print -> eval -> equal and pickle round trip: " + PURE,
    "C13": "parser precedence vs Python: pure, over strings; " + PURE,
    "C14": "quoting of literals/identifiers: pure, over strings x dialects; " + PURE,
    "C15": "renaming invariance: pure metamorphic; " + PURE,
    "C16": "join semantics: " + PURE,
    "C17": "record-transform inverse/compose laws: " + PURE,
    "C21": "solution helpers vs reference computations: " + PURE,
    "C22": "the only state is one process-global bit read at call time; the two existing unit tests cover both values and there is no interleaving beyond them worth a simulator; which specifications/values raise is input space",
    "C23": "connected_components is a pure function of its two vectors; set iteration inside cannot change the labels",
    "C26": "builder rejection rules: pure, over (prefix, step); " + PURE,
    "C27": "window functions per ordered partition: the 'independent of physical order' facet is decided under C18; 'equals the documented function' and cross-backend facets are differential; " + PURE,
}

RUN = "/venv/bin/python /verif/run_check.py {id} --tier {tier}"
CHECKS = {
    "C24": dict(
        text="Seeded simulation of operation histories over three live OrderedSets against a reference model "
             "(duplicate-free list), checked after every operation, with injected mid-operation faults (iterables "
             "that die after k items, elements whose hash raises). Exploration level: the quantifier is 'all "
             "operation sequences'; histories are sampled, not enumerated.",
        note="Trusts CPython's collections.abc mixins and the reference list model; order asserted only where the "
             "property fixes one; seeded sampling.",
        technique="deterministic simulation: seeded operation/fault histories vs reference model, ddmin replay files",
        ref="DESIGN.md section 4 (C24)"),
    "C25": dict(
        text="Seeded simulation of store/get histories on a real ResultCache over a pool of live caller-owned frames, "
             "with injected in-place mutation of owned objects (stored res, data_map members, returned copies) and "
             "pickle restarts, against a reference map keyed by content specs taken at call time; three-valued key "
             "relation (identical / differ / grey). Exploration level: histories and data maps are sampled.",
        note="Trusts pandas construction/mutation of small frames and the harness' cell-level content spec; grey-zone "
             "keys (dtype, index, -0.0, None vs NaN) are don't-care; hash collisions not searched.",
        technique="deterministic simulation: seeded store/get/alias-mutation/restart histories vs reference map",
        ref="DESIGN.md section 4 (C25)"),
    "C20": dict(
        text="Seeded simulation of operation histories (insert / execute / remove / retrieve / describe / keys by 2-3 "
             "interleaved clients, user and automatic keys, pipelines built from earlier descriptions, r := f(r)) on the "
             "real DataModelSpace (Pandas and Polars executors) and the real DBSpace over in-memory SQLite behind a "
             "simulated DB-API connection, against a reference map with an independent pipeline interpreter; strict "
             "oracle on fault-free histories; statement-level and mid-statement DB faults and executor aborts with a "
             "narrowly relaxed oracle. Exploration level: histories and fault points are sampled.",
        note="Pipelines stay in a fragment where all back ends are exact; DB-fault violations are attributed to the "
             "failed statement (closed set of 11 fault points, all listed as known findings, plus one fault-free finding about case-insensitive SQLite table names); PostgreSQL/MySQL/BigQuery/Spark not run.",
        technique="deterministic simulation with fault injection: seeded multi-client histories + DB/executor fault plans vs reference map",
        ref="DESIGN.md section 4 (C20)"),
    "C19": dict(
        text="Seeded simulation of interleaved evaluations (eval, transform, ex, >>, on Pandas and Polars) over a shared "
             "pool of caller-owned frames and pipelines, mixed with SQL generation/execution and introspection on the same "
             "operator nodes, with evaluations aborted at chosen executor call-backs and callers mutating results they "
             "own; after every operation every pool frame is compared with its creation snapshot (values, dtypes, columns, "
             "index) and every result with the first result of the same identity; a sample is re-run under another "
             "PYTHONHASHSEED in a fresh interpreter. Exploration level.",
        note="Program space sampled through the workload generator; re-evaluation compared as column set + row multiset; "
             "Polars thread pool pinned to one thread.",
        technique="deterministic simulation: seeded interleavings of evaluations with abort-at-callback faults, snapshot invariants, cross-hash-seed replay",
        ref="DESIGN.md section 4 (C19)"),
    "C18": dict(
        text="The environment's free choices (row order of every input, Pandas index labelling, SQLite load order / "
             "reverse_unordered_selects / secondary indexes / automatic_index) are decided by a seeded scheduler; every "
             "prefix of a generated pipeline is evaluated on Pandas, Polars and SQLite under the identity schedule and "
             "under K seeded schedules and must give the same row multiset; prefixes ending in order_rows are checked "
             "against a reference sort (sortedness, sub-multiset, exactly the first `limit` rows). Exploration level.",
        note="Only orderings that are total within each partition are judged (checked per backend at run time); a backend "
             "that raises under the identity schedule is skipped; exact arithmetic by construction.",
        technique="deterministic simulation: seeded schedules of environment-chosen order/index/scan order vs identity schedule, reference sort",
        ref="DESIGN.md section 4 (C18)"),
}


def main():
    checks = []
    for pid in sorted(CHECKS):
        c = CHECKS[pid]
        checks.append({
            "property_id": pid,
            "quick_cmd": RUN.format(id=pid, tier="quick"),
            "thorough_cmd": RUN.format(id=pid, tier="thorough"),
            "evidence_file": f"/verif/evidence/{pid}.json",
            "replay_cmd_template": "/venv/bin/python /verif/worker.py replay {path}",
            "engine": "dst",
            "level_claimed": {"category": "exploration", "text": c["text"], "design_ref": c["ref"]},
            "level_note": c["note"],
            "technique": c["technique"],
        })
    na = [{"property_id": k, "reason": v} for k, v in sorted(NA.items()) if k not in CHECKS]
    m = {
        "version": 1,
        "setup_cmd": "/venv/bin/python /verif/setup_check.py",
        "hooks": {
            "guard": "DATA_ALGEBRA_VERIF",
            "enable": "no source hooks are needed: every seam (DB-API connection, data model object, PYTHONHASHSEED, "
                      "SQLite pragmas/progress handler) already exists; checks import /repo's working tree through "
                      "the editable install after force-recompiling it; DATA_ALGEBRA_VERIF=1 is set for workers but "
                      "nothing in /repo reads it",
            "baseline_off_cmd": "cd /repo && /venv/bin/python -m pytest -ra -q -p no:cacheprovider --timeout=900 --continue-on-collection-errors",
            "source_commits": [],
            "add_only": True,
        },
        "engines": [{
            "name": "dst", "path": "/verif/run_check.py",
            "serves_properties": sorted(CHECKS),
            "kind_free_text": "deterministic simulation with fault injection: one master seed -> JSON scenarios -> "
                              "16 fresh-interpreter lanes with pinned PYTHONHASHSEED -> per-step oracles vs reference "
                              "models -> ddmin-minimised replay files",
        }],
        "checks": checks,
        "not_applicable": na,
        "notes": "See DESIGN.md. Exit 0 held / 1 VIOLATION / 2 HARNESS-ERROR. known_findings.json lists genuine "
                 "defects recorded rather than repaired.",
    }
    with open(os.path.join(HERE, "MANIFEST.json"), "w") as f:
        json.dump(m, f, indent=1)
    print("wrote MANIFEST.json:", len(checks), "checks,", len(na), "not applicable")


if __name__ == "__main__":
    main()
