#!/venv/bin/python
"""tools/investigate.py PROP SEED [--no-min] : generate, execute, minimise in-process, print."""
import importlib, json, os, sys
sys.path.insert(0, os.path.dirname(os.path.dirname(os.path.abspath(__file__))))
prop, seed = sys.argv[1], int(sys.argv[2])
mod = importlib.import_module("sim.props." + prop.lower())
from sim.minimise import Minimiser
cfg = mod.TIERS["quick"].get("gen", {})
scn = mod.generate(seed, cfg)
scn["hashseed"] = int(os.environ.get("PYTHONHASHSEED", "0") or 0)
res = mod.execute(scn)
print("verdict", res["verdict"], res.get("sig"), res.get("step"))
print("detail", res.get("detail"))
if res["verdict"] == "violation" and "--no-min" not in sys.argv:
    m = Minimiser(mod, tuple(res["sig"]), budget_s=60, max_execs=1500)
    small = m.run(scn)
    r2 = mod.execute(small)
    print("minimised with", m.execs, "execs ->", r2.get("sig"), r2.get("detail"))
    small.pop("hashseed", None)
    print(json.dumps(small, indent=None if "--compact" in sys.argv else 1))
