#!/bin/bash
# tools/ingest_seeded.sh <id> <PROP> <agent-worktree>: confirm a sub-agent's change in a fresh scratch worktree of /repo
# (patch applies, demo exits 1 with / 0 without, pinned suite passes = baseline), copy patch+demo to /verif/seeded/<id>/,
# then run the property's quick check against the patched worktree. Never touches /repo's working tree.
set -u
id=$1; prop=$2; awt=$3
HERE=$(cd "$(dirname "$0")/.." && pwd)
dst=$HERE/seeded/$id; mkdir -p "$dst"
cp "$awt/seeded/patch.diff" "$dst/patch.diff"; cp "$awt/seeded/demo.py" "$dst/demo.py"
wt=/tmp/da_ingest_${id}_$$
git -C /repo worktree add --detach "$wt" HEAD >/dev/null 2>&1 || { echo "worktree failed"; exit 2; }
trap 'git -C /repo worktree remove --force "$wt" >/dev/null 2>&1' EXIT
( cd "$wt" && PYTHONPATH=$wt timeout 300 /venv/bin/python "$dst/demo.py" >/dev/null 2>&1 ); echo "$id demo-without rc=$?"
git -C "$wt" apply "$dst/patch.diff" || { echo "$id patch does not apply"; exit 2; }
echo "$id files: $(git -C "$wt" diff --stat | tail -1)"
( cd "$wt" && PYTHONPATH=$wt timeout 300 /venv/bin/python "$dst/demo.py" >/dev/null 2>&1 ); echo "$id demo-with rc=$?"
/venv/bin/python -m compileall -q "$wt/data_algebra" >/dev/null && echo "$id compiles"
/venv/bin/python "$HERE/tools/baseline_compare.py" "$wt"; echo "$id suite rc=$?"
( cd "$wt" && git checkout -- tests >/dev/null 2>&1 )
VERIF_REPO=$wt VERIF_REPLAY_DIR=/tmp/da_ingest_rp_$id timeout 1500 /venv/bin/python "$HERE/run_check.py" "$prop" --tier quick --no-evidence ${4:+--runs $4} 2>&1 | grep -v KNOWN-FINDING | grep -E "signature:|VIOLATION|runs=|exit|Error" | head -12
echo "$id check rc=${PIPESTATUS[0]}"
rm -rf /tmp/da_ingest_rp_$id
