#!/venv/bin/python
"""tools/run_seeded.py [id ...] [--runs N] [--tier quick]: apply /verif/seeded/<id>/patch.diff to a scratch worktree of /repo
(never to /repo itself), run the property's check against it, report caught / missed, remove the worktree."""
import json, os, subprocess, sys, shutil, time
HERE = os.path.dirname(os.path.dirname(os.path.abspath(__file__)))
args = [a for a in sys.argv[1:] if not a.startswith("--")]
runs = None
if "--runs" in sys.argv:
    runs = sys.argv[sys.argv.index("--runs") + 1]
    args = [a for a in args if a != runs]
ids = args or sorted(os.listdir(os.path.join(HERE, "seeded")))
res = {}
for sid in ids:
    d = os.path.join(HERE, "seeded", sid)
    meta = json.load(open(os.path.join(d, "meta.json")))
    wt = f"/tmp/da_seeded_{sid}_{os.getpid()}"
    subprocess.run(["git", "-C", "/repo", "worktree", "remove", "--force", wt], capture_output=True)
    r = subprocess.run(["git", "-C", "/repo", "worktree", "add", "--detach", wt, "HEAD"], capture_output=True, text=True)
    assert r.returncode == 0, r.stderr
    try:
        r = subprocess.run(["git", "-C", wt, "apply", os.path.join(d, "patch.diff")], capture_output=True, text=True)
        assert r.returncode == 0, r.stderr
        env = dict(os.environ, VERIF_REPO=wt, VERIF_REPLAY_DIR=f"/tmp/da_seeded_rp_{sid}")
        cmd = ["/venv/bin/python", os.path.join(HERE, "run_check.py"), meta["property"], "--tier", "quick", "--no-evidence"]
        need = meta.get("detection", {}).get("runs_for_reliable_detection")
        if runs:
            cmd += ["--runs", runs]
        elif need:
            cmd += ["--runs", str(need)]  # a change that the quick tier's default batch only hits now and then
        t0 = time.monotonic()
        r = subprocess.run(cmd, env=env, capture_output=True, text=True)
        sigs = [l.strip() for l in r.stdout.splitlines() if l.strip().startswith("signature:")]
        summ = [l for l in r.stdout.splitlines() if l.startswith("[") and "runs=" in l and "violating" in l]
        caught = r.returncode == 1
        print(f"{sid:6s} {meta['property']} {'CAUGHT' if caught else 'MISSED rc=%d' % r.returncode} {time.monotonic()-t0:5.1f}s "
              f"{summ[-1].split(' wall')[0] if summ else ''}\n        {sigs[:3]}")
        res[sid] = caught
    finally:
        subprocess.run(["git", "-C", "/repo", "worktree", "remove", "--force", wt], capture_output=True)
        shutil.rmtree(f"/tmp/da_seeded_rp_{sid}", ignore_errors=True)
print(json.dumps(res))
sys.exit(0 if all(res.values()) else 1)
