#!/venv/bin/python
"""tools/soak.py --seeds 1-20 [--props C18,C19] [--tier quick]: run the registered checks on the unchanged tree under many
VERIF_SEEDs; any non-zero exit or VIOLATION line is a false alarm (or a new finding) to be triaged. Does not write evidence."""
import argparse, os, subprocess, sys, time
HERE = os.path.dirname(os.path.dirname(os.path.abspath(__file__)))
ap = argparse.ArgumentParser()
ap.add_argument("--seeds", default="1-10")
ap.add_argument("--props", default="C18,C19,C20,C24,C25")
ap.add_argument("--tier", default="quick")
ap.add_argument("--runs", default=None)
a = ap.parse_args()
lo, hi = (int(x) for x in a.seeds.split("-"))
bad = 0
for seed in range(lo, hi + 1):
    for prop in a.props.split(","):
        env = dict(os.environ, VERIF_SEED=str(seed), VERIF_REPLAY_DIR=os.path.join(HERE, ".work", "soak_replays"))
        cmd = ["/venv/bin/python", os.path.join(HERE, "run_check.py"), prop, "--tier", a.tier, "--no-evidence"]
        if a.runs:
            cmd += ["--runs", a.runs]
        t0 = time.monotonic()
        r = subprocess.run(cmd, env=env, capture_output=True, text=True)
        tail = [l for l in r.stdout.splitlines() if l.startswith("[") and "runs=" in l and "ok=" in l]
        flag = "ok" if r.returncode == 0 and "VIOLATION" not in r.stdout else "ALARM"
        print(f"seed={seed} {prop} rc={r.returncode} {flag} {time.monotonic()-t0:.0f}s {tail[-1][:160] if tail else r.stdout[-300:]}", flush=True)
        if flag != "ok":
            bad += 1
            print("\n".join(l for l in r.stdout.splitlines() if not l.startswith("KNOWN"))[-3000:], flush=True)
print("alarms:", bad)
sys.exit(1 if bad else 0)
