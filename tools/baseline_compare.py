#!/usr/bin/env python3
"""Run the pinned baseline suite (guard off) and compare passes with /root/.vp/BASELINE.json stable_pass."""
import json, subprocess, sys, xml.etree.ElementTree as ET, os, tempfile
repo = sys.argv[1] if len(sys.argv) > 1 else "/repo"
out = tempfile.mktemp(suffix=".xml", dir="/var/tmp")
env = dict(os.environ); env.pop("DATA_ALGEBRA_VERIF", None)
if repo != "/repo":
    env["PYTHONPATH"] = repo
subprocess.run(f"cd {repo} && /venv/bin/python -m pytest -ra -q -p no:cacheprovider --timeout=900 --continue-on-collection-errors --junitxml={out}",
               shell=True, env=env, stdout=subprocess.DEVNULL, stderr=subprocess.DEVNULL)
passed = set()
for tc in ET.parse(out).getroot().iter("testcase"):
    if not any(ch.tag in ("failure", "error", "skipped") for ch in tc):
        passed.add(f"{tc.get('classname')}::{tc.get('name')}")
os.remove(out)
base = set(json.load(open("/root/.vp/BASELINE.json"))["stable_pass"])
print(repo, "passed", len(passed), "baseline", len(base), "missing", sorted(base - passed)[:10], "extra", len(passed - base))
sys.exit(0 if base <= passed else 1)
