#!/venv/bin/python
"""tools/save_replay.py PROP SEED OUT.json : minimise the violation of a run-seed and write a replay file (hashseed 0)."""
import importlib, json, os, sys
sys.path.insert(0, os.path.dirname(os.path.dirname(os.path.abspath(__file__))))
if os.environ.get("PYTHONHASHSEED") != "0":
    os.environ["PYTHONHASHSEED"] = "0"
    os.execve(sys.executable, [sys.executable] + sys.argv, os.environ)
prop, seed, out = sys.argv[1], int(sys.argv[2]), sys.argv[3]
mod = importlib.import_module("sim.props." + prop.lower())
from sim.minimise import Minimiser
scn = mod.generate(seed, mod.TIERS["quick"].get("gen", {}))
scn["hashseed"] = 0
res = mod.execute(scn)
assert res["verdict"] == "violation", res["verdict"]
m = Minimiser(mod, tuple(res["sig"]), budget_s=90, max_execs=3000)
small = m.run(scn)
r2 = mod.execute(small)
doc = {"property": prop, "signature": r2["sig"], "scenario": small,
       "expected": {"verdict": r2["verdict"], "sig": r2["sig"], "log": r2["log"], "detail": r2["detail"], "step": r2["step"]}}
json.dump(doc, open(out, "w"), indent=1, sort_keys=True)
print("|".join(r2["sig"]), "->", out, ":", r2["detail"][:200])
