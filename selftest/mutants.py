"""Hand-made mutants for the sensitivity self-test: each still compiles, each must be caught."""

MUTANTS = [
    # ------------------------------------------------------------------ C24
    dict(id="c24-add-moves-to-end", prop="C24", file="data_algebra/OrderedSet.py", tests=["test_OrderedSet.py"],
         old='        self.impl[elem] = None\n',
         new='        self.impl.pop(elem, None)\n        self.impl[elem] = None\n'),
    dict(id="c24-discard-raises-missing", prop="C24", file="data_algebra/OrderedSet.py", tests=["test_OrderedSet.py"],
         old='        self.impl.pop(elem, None)\n', new='        self.impl.pop(elem)\n'),
    dict(id="c24-union-b-sorted", prop="C24", file="data_algebra/OrderedSet.py", tests=["test_OrderedSet.py"],
         old='    a = OrderedSet(a)\n    for v in b:\n        if v not in a:\n            a.add(v)\n    return a\n',
         new='    a = OrderedSet(a)\n    extra = [v for v in b if v not in a]\n    try:\n        extra = sorted(extra)\n'
             '    except TypeError:\n        pass\n    for v in extra:\n        a.add(v)\n    return a\n'),
    dict(id="c24-diff-symmetric", prop="C24", file="data_algebra/OrderedSet.py", tests=["test_OrderedSet.py"],
         old='    b = set(b)\n    a = OrderedSet([v for v in a if v not in b])\n    return a\n',
         new='    b = list(b)\n    bs = set(b)\n    a = list(a)\n    sa = set(a)\n'
             '    return OrderedSet([v for v in a if v not in bs] + [v for v in b if v not in sa])\n'),
    dict(id="c24-union-method-skips-membership", prop="C24", file="data_algebra/OrderedSet.py", tests=["test_OrderedSet.py"],
         old='                if k not in res:\n                    res.add(k)\n',
         new='                if k in res:\n                    res.discard(k)\n                res.add(k)\n'),
    dict(id="c24-copy-shares-impl", prop="C24", file="data_algebra/OrderedSet.py", tests=["test_OrderedSet.py"],
         old='    def copy(self):\n        return OrderedSet(self.impl.keys())\n',
         new='    def copy(self):\n        res = OrderedSet()\n        res.impl = self.impl\n        return res\n'),
    dict(id="c24-intersect-ordered-by-b", prop="C24", file="data_algebra/OrderedSet.py", tests=["test_OrderedSet.py"],
         old='    b = set(b)\n    return OrderedSet([v for v in a if v in b])\n',
         new='    a = list(a)\n    b = list(b)\n    if len(b) < len(a):\n        sa = set(a)\n        return OrderedSet([v for v in b if v in sa])\n'
             '    b = set(b)\n    return OrderedSet([v for v in a if v in b])\n'),
    dict(id="c24-update-atomic-loses-on-fault", prop="C24", file="data_algebra/OrderedSet.py", tests=["test_OrderedSet.py"],
         old='            for e in s:\n                self.add(e)\n',
         new='            old = list(self.impl.keys())\n            try:\n                for e in s:\n                    self.add(e)\n'
             '            except Exception:\n                self.impl.clear()\n                for e in old[:-1]:\n                    self.impl[e] = None\n                raise\n'),
    # ------------------------------------------------------------------ C25
    dict(id="c25-get-returns-stored-object", prop="C25", file="data_algebra/eval_cache.py", tests=["test_eval_cache.py"],
         old='        return res.copy()\n', new='        return res\n'),
    dict(id="c25-store-keeps-reference", prop="C25", file="data_algebra/eval_cache.py", tests=["test_eval_cache.py"],
         old='        self.result_cache[op_key] = res.copy()\n', new='        self.result_cache[op_key] = res\n'),
    dict(id="c25-hash-ignores-row-order", prop="C25", file="data_algebra/eval_cache.py", tests=["test_eval_cache.py"],
         old='        .pd.util.hash_pandas_object(d)\n        .values\n',
         new='        .pd.util.hash_pandas_object(d, index=False)\n        .sort_values().values\n'),
    dict(id="c25-key-omits-dialect", prop="C25", file="data_algebra/eval_cache.py", tests=[],
         old='        db_model_name=str(db_model),\n', new='        db_model_name="db",\n'),
    dict(id="c25-key-omits-column-names", prop="C25", file="data_algebra/eval_cache.py", tests=["test_eval_cache.py"],
         old='    return f"{d.shape}_{list(d.columns)}_{hash_str}"\n', new='    return f"{d.shape}_{hash_str}"\n'),
    dict(id="c25-hash-memo-in-attrs", prop="C25", file="data_algebra/eval_cache.py", tests=["test_eval_cache.py"],
         edits=[('    data_algebra.data_model.default_data_model().is_appropriate_data_instance(d)\n    hash_str',
                 '    data_algebra.data_model.default_data_model().is_appropriate_data_instance(d)\n'
                 '    if "_da_hash" in d.attrs:\n        return d.attrs["_da_hash"]\n    hash_str'),
                ('    return f"{d.shape}_{list(d.columns)}_{hash_str}"\n',
                 '    d.attrs["_da_hash"] = f"{d.shape}_{list(d.columns)}_{hash_str}"\n    return d.attrs["_da_hash"]\n')]),
    dict(id="c25-store-never-overwrites", prop="C25", file="data_algebra/eval_cache.py", tests=["test_eval_cache.py"],
         old='            if previous.equals(res):\n                return\n', new='            return\n'),
    dict(id="c25-key-strips-sql", prop="C25", file="data_algebra/eval_cache.py", tests=["test_eval_cache.py"],
         old='        sql=sql,\n        dat_map_list', new='        sql=sql.strip(),\n        dat_map_list'),
    dict(id="c25-key-ignores-table-names", prop="C25", file="data_algebra/eval_cache.py", tests=["test_eval_cache.py"],
         old='tuple([(k, hash_data_frame(data_map[k])) for k in data_map_keys])',
         new='tuple([("t", hash_data_frame(data_map[k])) for k in data_map_keys])'),
    dict(id="c25-hash-first-column-only", prop="C25", file="data_algebra/eval_cache.py", tests=["test_eval_cache.py"],
         old='        .pd.util.hash_pandas_object(d)\n', new='        .pd.util.hash_pandas_object(d.iloc[:, :1] if d.shape[1] > 1 else d)\n'),
]
