"""Hand-made mutants for the sensitivity self-test: each still compiles, each must be caught."""

MUTANTS = [
    # ------------------------------------------------------------------ C24
    dict(id="c24-add-moves-to-end", prop="C24", file="data_algebra/OrderedSet.py", tests=["test_OrderedSet.py"],
         old='        self.impl[elem] = None\n',
         new='        self.impl.pop(elem, None)\n        self.impl[elem] = None\n'),
    dict(id="c24-discard-raises-missing", prop="C24", file="data_algebra/OrderedSet.py", tests=["test_OrderedSet.py"],
         old='        self.impl.pop(elem, None)\n', new='        self.impl.pop(elem)\n'),
    dict(id="c24-union-b-sorted", prop="C24", file="data_algebra/OrderedSet.py", tests=["test_OrderedSet.py"],
         old='    a = OrderedSet(a)\n    for v in b:\n        if v not in a:\n            a.add(v)\n    return a\n',
         new='    a = OrderedSet(a)\n    extra = [v for v in b if v not in a]\n    try:\n        extra = sorted(extra)\n'
             '    except TypeError:\n        pass\n    for v in extra:\n        a.add(v)\n    return a\n'),
    dict(id="c24-diff-symmetric", prop="C24", file="data_algebra/OrderedSet.py", tests=["test_OrderedSet.py"],
         old='    b = set(b)\n    a = OrderedSet([v for v in a if v not in b])\n    return a\n',
         new='    b = list(b)\n    bs = set(b)\n    a = list(a)\n    sa = set(a)\n'
             '    return OrderedSet([v for v in a if v not in bs] + [v for v in b if v not in sa])\n'),
    dict(id="c24-union-method-skips-membership", prop="C24", file="data_algebra/OrderedSet.py", tests=["test_OrderedSet.py"],
         old='                if k not in res:\n                    res.add(k)\n',
         new='                if k in res:\n                    res.discard(k)\n                res.add(k)\n'),
    dict(id="c24-copy-shares-impl", prop="C24", file="data_algebra/OrderedSet.py", tests=["test_OrderedSet.py"],
         old='    def copy(self):\n        return OrderedSet(self.impl.keys())\n',
         new='    def copy(self):\n        res = OrderedSet()\n        res.impl = self.impl\n        return res\n'),
    dict(id="c24-intersect-ordered-by-b", prop="C24", file="data_algebra/OrderedSet.py", tests=["test_OrderedSet.py"],
         old='    b = set(b)\n    return OrderedSet([v for v in a if v in b])\n',
         new='    a = list(a)\n    b = list(b)\n    if len(b) < len(a):\n        sa = set(a)\n        return OrderedSet([v for v in b if v in sa])\n'
             '    b = set(b)\n    return OrderedSet([v for v in a if v in b])\n'),
    dict(id="c24-update-atomic-loses-on-fault", prop="C24", file="data_algebra/OrderedSet.py", tests=["test_OrderedSet.py"],
         old='            for e in s:\n                self.add(e)\n',
         new='            old = list(self.impl.keys())\n            try:\n                for e in s:\n                    self.add(e)\n'
             '            except Exception:\n                self.impl.clear()\n                for e in old[:-1]:\n                    self.impl[e] = None\n                raise\n'),
]
