#!/venv/bin/python
"""
Determinism self-test (DESIGN 3.7): for each simulation, N run-seeds are executed
  A) in a fresh interpreter under hash seed h1,
  B) again in another fresh interpreter under h1, started while other lanes load the machine,
  C) under a different hash seed h2,
  D) under h1 but in reverse seed order (a run must not depend on its lane neighbours);
per seed: scenario digests must agree in A-D (generator independent of hash seed and order), event-log digests
and verdicts must agree in A, B, D, and - where the simulation declares its log hash-seed independent - in C too.

  selftest/determinism.py [--prop C20] [--n 256] [--seed 0]
exit 0 = deterministic on the sample, 1 = a divergence was found (printed), 2 = could not run
"""
import argparse
import importlib
import json
import os
import subprocess
import sys
import tempfile

HERE = os.path.dirname(os.path.dirname(os.path.abspath(__file__)))
sys.path.insert(0, HERE)
PY = "/venv/bin/python"
PROPS = ["C18", "C19", "C20", "C24", "C25"]


def run_lane(prop, seeds, hashseed, gen, work, name):
    cfg = {"lane": name, "hashseed": hashseed, "seeds": seeds, "gen": gen, "soft_deadline_s": 1e9,
           "hard_timeout_s": 1800, "echo_only": True}
    cp = os.path.join(work, name + ".cfg.json")
    op = os.path.join(work, name + ".jsonl")
    json.dump(cfg, open(cp, "w"))
    env = dict(os.environ, PYTHONHASHSEED=str(hashseed), POLARS_MAX_THREADS="1", OMP_NUM_THREADS="1",
               OPENBLAS_NUM_THREADS="1", MKL_NUM_THREADS="1", NUMEXPR_NUM_THREADS="1", PYTHONDONTWRITEBYTECODE="1",
               DATA_ALGEBRA_VERIF="1", VERIF_EXPECT_REPO=os.path.realpath("/repo"))
    env.pop("VERIF_REEXEC", None)
    return subprocess.Popen([PY, os.path.join(HERE, "worker.py"), "lane", prop, cp, op], env=env,
                            stdout=subprocess.DEVNULL, stderr=subprocess.PIPE), op


def read(op):
    out = {}
    for line in open(op):
        d = json.loads(line)
        if not d.get("summary"):
            out[d["seed"]] = d
    return out


def main():
    ap = argparse.ArgumentParser()
    ap.add_argument("--prop")
    ap.add_argument("--n", type=int, default=256)
    ap.add_argument("--seed", type=int, default=0)
    a = ap.parse_args()
    bad = 0
    for prop in ([a.prop.upper()] if a.prop else PROPS):
        mod = importlib.import_module("sim.props." + prop.lower())
        gen = mod.TIERS["quick"].get("gen", {})
        base = a.seed * (2 ** 20) + 7919
        seeds = [base + i for i in range(a.n)]
        h1, h2 = 12345, 987654321
        with tempfile.TemporaryDirectory(dir=os.path.join(HERE, ".work") if os.path.isdir(os.path.join(HERE, ".work")) else None) as work:
            # split into 8 chunks per variant so that 32 interpreters compete for 16 cores
            procs = []
            chunks = [seeds[i::8] for i in range(8)]
            for tag, hs, order in (("A", h1, 1), ("B", h1, 1), ("C", h2, 1), ("D", h1, -1)):
                for ci, ch in enumerate(chunks):
                    p, op = run_lane(prop, ch[::order], hs, gen, work, f"{tag}{ci}")
                    procs.append((tag, p, op))
            res = {"A": {}, "B": {}, "C": {}, "D": {}}
            for tag, p, op in procs:
                _, err = p.communicate()
                if p.returncode != 0:
                    print(f"{prop}: lane {tag} failed rc={p.returncode}\n{err.decode()[-1500:]}")
                    return 2
                res[tag].update(read(op))
        n_div = 0
        for sd in seeds:
            ra, rb, rc, rd = (res[t].get(sd) for t in "ABCD")
            if None in (ra, rb, rc, rd):
                print(f"{prop}: seed {sd} missing in a lane")
                return 2
            if len({ra["scen"], rb["scen"], rc["scen"], rd["scen"]}) != 1:
                print(f"{prop}: seed {sd}: scenario digest differs: {ra['scen']} {rb['scen']} {rc['scen']} {rd['scen']}")
                n_div += 1
            for tag, r in (("B (same hash seed, second interpreter)", rb), ("D (reverse order)", rd)):
                if (ra["log"], ra["verdict"]) != (r["log"], r["verdict"]):
                    print(f"{prop}: seed {sd}: event log differs in {tag}: {ra['log']}/{ra['verdict']} vs {r['log']}/{r['verdict']}")
                    n_div += 1
            if getattr(mod, "LOG_HASHSEED_INDEPENDENT", False) and (ra["log"], ra["verdict"]) != (rc["log"], rc["verdict"]):
                print(f"{prop}: seed {sd}: event log differs under another PYTHONHASHSEED")
                n_div += 1
            elif ra["verdict"] != rc["verdict"]:
                print(f"{prop}: seed {sd}: verdict differs under another PYTHONHASHSEED: {ra['verdict']} vs {rc['verdict']}")
                n_div += 1
        print(f"{prop}: {a.n} seeds x 4 variants (2 fresh interpreters same hash seed, other hash seed, reverse order): "
              f"{'deterministic' if n_div == 0 else str(n_div) + ' DIVERGENCES'}")
        bad += n_div
    return 1 if bad else 0


if __name__ == "__main__":
    sys.exit(main())
