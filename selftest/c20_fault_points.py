#!/venv/bin/python
"""
Systematic enumeration of DB fault points for C20 (complements the seeded sampling): for five canonical operations on
a DBSpace (insert new key, insert over an existing key, execute to a new key, execute over an existing key, remove) every
statement index x every fault kind (stmt-error, commit-fail, stmt-interrupt with several VM-step budgets) is injected
once; the relaxed oracle + the epilogue decide. Prints the outcome per fault point and checks that every violating
signature is one of the entries of known_findings.json (i.e. that the closed-set claim of DESIGN 8.4 holds).

  selftest/c20_fault_points.py        exit 0: all violating fault points are listed; 1: an unlisted one exists
"""
import json
import os
import sys

HERE = os.path.dirname(os.path.dirname(os.path.abspath(__file__)))
sys.path.insert(0, HERE)
if os.environ.get("PYTHONHASHSEED") != "0":
    os.environ["PYTHONHASHSEED"] = "0"
    os.execve(sys.executable, [sys.executable] + sys.argv, os.environ)

from sim.props import c20  # noqa: E402

T = [{"cols": [{"name": "k", "type": "i", "values": [1, 2, 3]}, {"name": "x", "type": "i", "values": [10, 20, 30]}]},
     {"cols": [{"name": "k", "type": "i", "values": [7, 8]}, {"name": "x", "type": "i", "values": [1, 2]}]}]
KNOBS = {"use_with": True, "annotate": False, "initial_commas": False, "sql_indent": " ", "allow_extend_merges": True,
         "reverse_unordered": False, "polars_lazy": True}
PIPE = {"src": {"h": None, "key": "a", "cols": ["k", "x"]}, "steps": [{"t": "extend", "new": "y", "a": "x", "opr": "+", "b": 1}]}


def scenario(target, fault):
    ops = [{"op": "insert", "client": 0, "key": "a", "table": 0, "ow": None, "id": 0},
           {"op": "insert", "client": 0, "key": "b", "table": 1, "ow": None, "id": 1}]
    t = dict(target, id=2, client=1)
    ops.append(t)
    ops += [{"op": "keys", "client": 0, "id": 3}, {"op": "retrieve", "client": 0, "key": "a", "id": 4}]
    for i, k in enumerate(c20.KEYS):
        ops.append({"op": "insert", "client": 0, "key": k, "table": 0, "ow": False, "epilogue": True, "id": 10 + i})
    f = dict(fault, op=2)
    return {"prop": "C20", "seed": 0, "replica": "db", "faulty": True, "knobs": KNOBS, "tables": T, "ops": ops,
            "faults": [f], "hashseed": 0}


TARGETS = {
    "insert-new": {"op": "insert", "key": "c", "table": 1, "ow": None},
    "insert-overwrite": {"op": "insert", "key": "b", "table": 0, "ow": True},
    "execute-new": {"op": "execute", "key": "c", "ow": None, "pipe": PIPE},
    "execute-overwrite": {"op": "execute", "key": "b", "ow": True, "pipe": PIPE},
    "execute-r:=f(r)": {"op": "execute", "key": "a", "ow": True, "pipe": PIPE},
    "remove": {"op": "remove", "key": "b"},
}


def main():
    known = {e["signature"] for e in json.load(open(os.path.join(HERE, "known_findings.json")))["findings"]
             if e.get("status") == "open"}
    unlisted = []
    table = []
    for tname, target in TARGETS.items():
        for n in range(0, 14):
            kinds = [{"kind": "stmt-error", "n": n, "msg": "disk I/O error"}, {"kind": "commit-fail", "n": n, "msg": "disk I/O error"}]
            kinds += [{"kind": "stmt-interrupt", "n": n, "m": m} for m in (0, 3, 8, 15, 22, 40)]
            fired_any = False
            for f in kinds:
                r = c20.execute(scenario(target, f))
                fired = sum(r["faults"].values())
                if not fired:
                    continue
                fired_any = True
                stmt = [k for k in r["probes"] if k.startswith("fault@")]
                sig = "|".join(r["sig"]) if r["verdict"] == "violation" else "-"
                table.append((tname, n, f["kind"] + (f":m={f['m']}" if "m" in f else ""), stmt[0] if stmt else "?", r["verdict"], sig))
                if r["verdict"] == "violation" and sig not in known:
                    unlisted.append((tname, n, f, sig, r["detail"][:200]))
            if not fired_any and n > 10:
                break
    w = max(len(t[0]) for t in table)
    for t in table:
        print(f"{t[0]:{w}s} stmt#{t[1]:<2d} {t[2]:22s} {t[3]:28s} {t[4]:9s} {t[5]}")
    viol = sorted({t[5] for t in table if t[4] == "violation"})
    ok_points = sorted({(t[0], t[3]) for t in table if t[4] == "ok"})
    print(f"\nfault points injected: {len(table)}; distinct violating signatures: {len(viol)}; all listed: {not unlisted}")
    print("fault points after which the space stayed consistent:", ok_points)
    for u in unlisted:
        print("UNLISTED:", u)
    return 1 if unlisted else 0


if __name__ == "__main__":
    sys.exit(main())
