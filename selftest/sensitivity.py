#!/venv/bin/python
"""
Sensitivity self-test (DESIGN 3.7): hand-made mutants of /repo, each applied to a scratch git worktree
(never to /repo itself), each required to be caught (exit 1 + VIOLATION line) by the property's check.

  selftest/sensitivity.py [--prop C24] [--only <mutant-id>] [--runs N] [--suite]

--suite additionally runs the repository's own test files named by the mutant (they must still pass).
"""
import argparse
import json
import os
import shutil
import subprocess
import sys
import time

HERE = os.path.dirname(os.path.dirname(os.path.abspath(__file__)))
sys.path.insert(0, HERE)
from selftest.mutants import MUTANTS  # noqa: E402

SCRATCH = f"/tmp/da_sens_worktree_{os.getpid()}"


def sh(cmd, **kw):
    return subprocess.run(cmd, stdout=subprocess.PIPE, stderr=subprocess.STDOUT, text=True, **kw)


def main():
    ap = argparse.ArgumentParser()
    ap.add_argument("--prop")
    ap.add_argument("--only")
    ap.add_argument("--runs", type=int)
    ap.add_argument("--suite", action="store_true")
    a = ap.parse_args()
    sh(["git", "-C", "/repo", "worktree", "remove", "--force", SCRATCH])
    r = sh(["git", "-C", "/repo", "worktree", "add", "--detach", SCRATCH, "HEAD"])
    if r.returncode != 0:
        print(r.stdout)
        return 2
    replay_dir = f"/tmp/da_sens_replays_{os.getpid()}"
    results = []
    try:
        for m in MUTANTS:
            if a.prop and m["prop"] != a.prop.upper():
                continue
            if a.only and m["id"] != a.only:
                continue
            sh(["git", "-C", SCRATCH, "checkout", "--", "."])
            path = os.path.join(SCRATCH, m["file"])
            src = open(path).read()
            edits = m.get("edits") or [(m["old"], m["new"])]
            bad = [o for o, _ in edits if src.count(o) != 1]
            if bad:
                print(f"{m['id']}: BAD MUTANT (old text occurs {[src.count(o) for o in bad]} times)")
                results.append((m["id"], "bad-mutant"))
                continue
            for o, n in edits:
                src = src.replace(o, n)
            open(path, "w").write(src)
            suite = ""
            if a.suite and m.get("tests"):
                env = dict(os.environ, PYTHONPATH=SCRATCH)
                rr = sh(["/venv/bin/python", "-m", "pytest", "-q", "-x", "-p", "no:cacheprovider"] +
                        [os.path.join(SCRATCH, "tests", t) for t in m["tests"]], env=env, cwd=SCRATCH)
                suite = " suite=" + ("pass" if rr.returncode == 0 else "FAIL")
            env = dict(os.environ, VERIF_REPO=SCRATCH, VERIF_REPLAY_DIR=replay_dir)
            cmd = ["/venv/bin/python", os.path.join(HERE, "run_check.py"), m["prop"], "--tier", "quick", "--no-evidence"]
            runs = a.runs or m.get("runs")
            if runs:
                cmd += ["--runs", str(runs)]
            t0 = time.monotonic()
            rr = sh(cmd, env=env)
            caught = rr.returncode == 1 and "VIOLATION property=" + m["prop"] in rr.stdout
            sigs = [ln.strip() for ln in rr.stdout.splitlines() if ln.strip().startswith("signature:")]
            print(f"{m['id']:40s} {'CAUGHT' if caught else 'MISSED rc=%d' % rr.returncode} "
                  f"{time.monotonic() - t0:5.1f}s{suite} {sigs[:2]}")
            if not caught:
                print(rr.stdout[-1500:])
            results.append((m["id"], "caught" if caught else "missed"))
    finally:
        sh(["git", "-C", "/repo", "worktree", "remove", "--force", SCRATCH])
        shutil.rmtree(replay_dir, ignore_errors=True)
    missed = [r for r in results if r[1] != "caught"]
    print(json.dumps({"mutants": len(results), "caught": len(results) - len(missed), "missed": [m[0] for m in missed]}))
    return 1 if missed else 0


if __name__ == "__main__":
    sys.exit(main())
