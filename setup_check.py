#!/venv/bin/python
"""MANIFEST.setup_cmd: nothing to build (pure Python); verify offline that everything the harness imports resolves."""
import sqlite3
import sys

import numpy
import pandas
import polars

import data_algebra
import data_algebra.SQLite
import data_algebra.db_space
import data_algebra.data_model_space
import data_algebra.eval_cache
import data_algebra.OrderedSet

assert sqlite3.sqlite_version_info >= (3, 25), sqlite3.sqlite_version
print("setup ok: python", sys.version.split()[0], "pandas", pandas.__version__, "polars", polars.__version__,
      "numpy", numpy.__version__, "sqlite", sqlite3.sqlite_version, "data_algebra from", data_algebra.__file__)
