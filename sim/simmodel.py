"""
Executor seam (DESIGN 2.2, 3.3): subclasses of the real PandasModel / PolarsModel whose overridable
call-backs - invoked by the *real* step functions between their own statements - bump a counter and raise
SimAbort when the counter reaches the planned value (fault F4 eval-abort).  Everything else is the real
executor.  Passed as data_model= to eval() / DataModelSpace().
"""

import types
from typing import Any, Dict, List, Optional

from sim.core import SimAbort


class AbortPlan:
    """shared counter: abort at the j-th call-back of the current evaluation (None = never)"""

    def __init__(self):
        self.at: Optional[int] = None
        self.count = 0
        self.fired_at: Optional[str] = None
        self.trace: List[str] = []
        self.enabled = True

    def arm(self, at: Optional[int]):
        self.at = at
        self.count = 0
        self.fired_at = None
        self.trace = []

    def disarm(self):
        self.at = None

    def tick(self, site: str):
        if not self.enabled:
            return
        self.trace.append(site)
        j = self.count
        self.count += 1
        if self.at is not None and j == self.at:
            self.at = None
            self.fired_at = site
            raise SimAbort(f"evaluation aborted at call-back {j} ({site})")


def make_sim_pandas_model(plan: AbortPlan):
    import pandas

    import data_algebra.pandas_base
    import data_algebra.pandas_model

    pd_proxy = types.ModuleType("pandas_proxy")

    class _Proxy(types.ModuleType):
        def __getattr__(self, name):
            return getattr(pandas, name)

    pd_proxy = _Proxy("pandas_proxy")

    def merge(*a, **k):
        plan.tick("pd.merge")
        return pandas.merge(*a, **k)

    def concat(*a, **k):
        plan.tick("pd.concat")
        return pandas.concat(*a, **k)

    pd_proxy.merge = merge
    pd_proxy.concat = concat

    class SimPandasModel(data_algebra.pandas_model.PandasModel):
        def __init__(self):
            data_algebra.pandas_base.PandasModelBase.__init__(self, pd=pd_proxy, presentation_model_name="pd")

        def _eval_value_source(self, s, *, data_map):
            plan.tick("node:" + s.node_name)
            return super()._eval_value_source(s, data_map=data_map)

        def clean_copy(self, df):
            plan.tick("clean_copy")
            return super().clean_copy(df)

        def columns_to_frame_(self, cols, *, target_rows=None):
            plan.tick("columns_to_frame_")
            return super().columns_to_frame_(cols, target_rows=target_rows)

        def table_is_keyed_by_columns(self, table, *, column_names):
            plan.tick("table_is_keyed_by_columns")
            return super().table_is_keyed_by_columns(table, column_names=column_names)

        def add_data_frame_columns_to_data_frame_(self, res, transient_new_frame):
            plan.tick("add_data_frame_columns_to_data_frame_")
            return super().add_data_frame_columns_to_data_frame_(res, transient_new_frame)

        def drop_indices(self, df):
            plan.tick("drop_indices")
            return super().drop_indices(df)

    return SimPandasModel()


def make_sim_polars_model(plan: AbortPlan, use_lazy_eval: bool = True):
    import data_algebra.polars_model

    class SimPolarsModel(data_algebra.polars_model.PolarsModel):
        def _compose_polars_ops(self, op, *, data_map):
            plan.tick("node:" + op.node_name)
            return super()._compose_polars_ops(op, data_map=data_map)

        def clean_copy(self, df):
            plan.tick("clean_copy")
            return super().clean_copy(df)

    return SimPolarsModel(use_lazy_eval=use_lazy_eval)


# ---------------------------------------------------------------------------------------------------------
# Instance-level interposition on an *existing* model object (the process-wide default Pandas / Polars model
# that eval(), transform(), ex() and >> use when no data_model is given).  The step functions look their
# call-backs up through `self`, so instance attributes shadow the class methods; nothing in /repo changes.
# ---------------------------------------------------------------------------------------------------------
PANDAS_HOOKS = ["_eval_value_source", "clean_copy", "columns_to_frame_", "table_is_keyed_by_columns",
                "add_data_frame_columns_to_data_frame_", "drop_indices"]
POLARS_HOOKS = ["_compose_polars_ops", "clean_copy"]


class Installed:
    def __init__(self):
        self.undo = []

    def uninstall(self):
        for obj, name, had, old in reversed(self.undo):
            if had:
                setattr(obj, name, old)
            else:
                try:
                    delattr(obj, name)
                except AttributeError:
                    pass
        self.undo = []


def install_hooks(model, plan: AbortPlan, inst: Installed):
    import pandas

    is_pandas = hasattr(model, "pd") and hasattr(model, "_eval_value_source")
    names = PANDAS_HOOKS if is_pandas else POLARS_HOOKS

    def wrap(name, orig):
        if name in ("_eval_value_source", "_compose_polars_ops"):
            def w(*a, **k):
                node = a[0] if a else (k.get("s") or k.get("op"))
                plan.tick("node:" + getattr(node, "node_name", "?"))
                return orig(*a, **k)
        else:
            def w(*a, **k):
                plan.tick(name)
                return orig(*a, **k)
        return w

    for name in names:
        if not hasattr(model, name):
            continue
        had = name in model.__dict__
        old = model.__dict__.get(name)
        orig = getattr(model, name)
        setattr(model, name, wrap(name, orig))
        inst.undo.append((model, name, had, old))
    if is_pandas:
        real_pd = model.pd

        class _Proxy(types.ModuleType):
            def __getattr__(self, nm):
                return getattr(real_pd, nm)

        proxy = _Proxy("pandas_proxy")

        def merge(*a, **k):
            plan.tick("pd.merge")
            return real_pd.merge(*a, **k)

        def concat(*a, **k):
            plan.tick("pd.concat")
            return real_pd.concat(*a, **k)

        proxy.merge = merge
        proxy.concat = concat
        inst.undo.append((model, "pd", True, real_pd))
        model.pd = proxy
