"""
Delta debugging over scenario JSON while the same violation signature persists (DESIGN 3.6).

 1. cut the operation list after the violating step;
 2. ddmin over every list named in mod.LIST_FIELDS (dotted paths into the scenario);
 3. property-specific reductions (mod.reductions) to a fixpoint;
all bounded by a wall budget and an execution budget. execute() is a pure function of the scenario, so
candidates are simply re-executed in this process.
"""

import copy
import time
from typing import Any, Dict, List, Tuple


def _get(scn, path: str):
    o = scn
    for p in path.split("."):
        o = o[p]
    return o


def _set(scn, path: str, val):
    parts = path.split(".")
    o = scn
    for p in parts[:-1]:
        o = o[p]
    o[parts[-1]] = val


class Minimiser:
    def __init__(self, mod, sig: Tuple[str, ...], budget_s: float = 60.0, max_execs: int = 3000):
        self.mod = mod
        self.sig = tuple(sig)
        self.deadline = time.monotonic() + budget_s
        self.max_execs = max_execs
        self.execs = 0

    def _execute(self, scn):
        """candidates run under a short CPU watchdog: a candidate that hangs is simply 'not the same violation'"""
        import signal

        class _T(BaseException):
            pass

        def on_alarm(signum, frame):
            raise _T()

        old = signal.signal(signal.SIGVTALRM, on_alarm)
        signal.setitimer(signal.ITIMER_VIRTUAL, float(getattr(self.mod, "RUN_CPU_LIMIT_S", 240.0)))
        try:
            return self.mod.execute(scn)
        except _T:
            return {"verdict": "hang"}
        finally:
            signal.setitimer(signal.ITIMER_VIRTUAL, 0)
            signal.signal(signal.SIGVTALRM, old)

    def out_of_budget(self) -> bool:
        return self.execs >= self.max_execs or time.monotonic() > self.deadline

    def fails(self, scn) -> bool:
        if self.out_of_budget():
            return False
        self.execs += 1
        try:
            r = self._execute(scn)
        except Exception:
            return False
        return r["verdict"] == "violation" and tuple(r["sig"]) == self.sig

    def ddmin_list(self, scn, path: str):
        items = list(_get(scn, path))
        n = 2
        while len(items) >= 1 and not self.out_of_budget():
            chunk = max(1, len(items) // n)
            reduced = False
            i = 0
            while i < len(items):
                cand_items = items[:i] + items[i + chunk:]
                cand = copy.deepcopy(scn)
                _set(cand, path, cand_items)
                fix = getattr(self.mod, "fixup", None)
                if fix is not None:
                    cand = fix(cand)
                if cand is not None and self.fails(cand):
                    items = list(_get(cand, path))
                    scn = cand
                    reduced = True
                else:
                    i += chunk
                if self.out_of_budget():
                    break
            if not reduced:
                if chunk == 1:
                    break
                n = min(len(items), n * 2)
            else:
                n = max(2, n - 1)
        return scn

    def run(self, scn: Dict[str, Any]) -> Dict[str, Any]:
        if not self.fails(scn):
            return scn
        # 1. truncate after the violating step
        r = self._execute(scn)
        step = r.get("step")
        trunc = getattr(self.mod, "truncate", None)
        if step is not None and trunc is not None:
            cand = trunc(copy.deepcopy(scn), step)
            if cand is not None and self.fails(cand):
                scn = cand
        changed = True
        rounds = 0
        while changed and not self.out_of_budget() and rounds < 6:
            rounds += 1
            before = _size(scn)
            for path in getattr(self.mod, "LIST_FIELDS", []):
                try:
                    _get(scn, path)
                except (KeyError, TypeError):
                    continue
                scn = self.ddmin_list(scn, path)
            progress = True
            while progress and not self.out_of_budget():
                progress = False
                for cand in self.mod.reductions(scn):
                    if self.out_of_budget():
                        break
                    if cand is not None and _size(cand) < _size(scn) and self.fails(cand):
                        scn = cand
                        progress = True
                        break
            changed = _size(scn) < before
        return scn


def _size(o: Any) -> int:
    import json

    return len(json.dumps(o, sort_keys=True))
