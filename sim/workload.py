"""
Workload generator shared by C18 and C19 (DESIGN section 4, C18 "Workload generator"):
small tables and well-typed pipelines as plain JSON, plus the builder that turns the JSON into real
data_algebra operator DAGs.  A small kind discipline keeps pipelines well-typed:

  key    unique, non-null int            group  low-cardinality non-null str or int
  int    int with nulls possible         float  dyadic float with nulls possible
  str    lowercase ascii, non-null       nn     non-null numeric produced by the pipeline (counts, row numbers)

Never emitted: / // % std var _uniform any_value, stored bool columns.
"""

import copy as _copy
from typing import Any, Dict, List, Optional, Tuple

# ---------------------------------------------------------------- tables ------------------------------
GROUP_S = ["a", "b", "c"]


N_SHAPES = 5  # 0-3: wide tables with optional columns; 4: a table of block records (see gen_block_table)


def pick_shape(rd) -> int:
    return rd.choice([0, 1, 2, 3, 0, 1, 2, 3, 4])


def gen_block_table(rd, name: str, n_rows: Optional[int] = None, like: Optional[Dict[str, Any]] = None) -> Dict[str, Any]:
    """a table holding block records (cdata): one row per (record key, measure) with complete blocks, physical rows
    shuffled; "blocks" tells gen_pipeline how to fold it into row records with convert_records. Half of these tables
    have a composite record key (id, j) with ties in id. `like`: the "blocks" of another batch of the same table."""
    drawn = rd.choice([["a", "b"], ["a", "b"], ["a", "b", "c"], ["hi", "lo"]])
    composite = rd.random() < 0.5
    if like is not None:
        drawn, composite = list(like["labels"]), len(like["keys"]) > 1
    labels = drawn
    nrec = rd.choice([0, 1, 2, 3, 4, 5, 6]) if n_rows is None else n_rows // len(labels)
    if composite:
        universe = [(i, j) for i in range(1, max(3, nrec)) for j in (1, 2, 3)]
        recs = rd.sample(universe, min(nrec, len(universe))) if nrec <= len(universe) else [(i, 1) for i in range(nrec)]
    else:
        recs = [(i,) for i in rd.sample(range(1, max(40, 3 * nrec + 1)), nrec)]
    null_rate = rd.choice([0.0, 0.15, 0.3])
    rows = [(rec, m, None if rd.random() < null_rate else rd.randrange(-8, 41) / 4.0) for rec in recs for m in labels]
    rd.shuffle(rows)
    keys = ["id", "j"] if composite else ["id"]
    cols = [{"name": k, "kind": "igroup", "values": [r_[0][ki] for r_ in rows]} for ki, k in enumerate(keys)]
    cols += [{"name": "m", "kind": "group", "values": [r_[1] for r_ in rows]},
             {"name": "val", "kind": "float", "values": [r_[2] for r_ in rows]}]
    return {"name": name, "cols": cols,
            "blocks": {"keys": keys, "measure": "m", "value": "val", "labels": labels, "cols": ["v_" + m for m in labels]}}


def gen_table(rd, name: str, n_rows: Optional[int] = None, shape: Optional[int] = None) -> Dict[str, Any]:
    shape = shape if shape is not None else pick_shape(rd)
    if shape == 4:
        return gen_block_table(rd, name, n_rows)
    n = n_rows if n_rows is not None else rd.choice([0, 1, 2, 3, 4, 5, 6, 8, 10, 12])
    if n_rows is None and rd.random() < 0.05:
        n = rd.choice([40, 100])  # beyond any "small table" fast path or sample size
    wide_ids = n > 38
    ids = rd.sample(range(1, max(400, 3 * n) if wide_ids else 40), n)
    cols = [{"name": "id", "kind": "key", "values": ids}]
    cols.append({"name": "g", "kind": "group", "values": [rd.choice(GROUP_S[: rd.choice([1, 2, 3])]) for _ in range(n)]})
    if shape in (1, 3):
        cols.append({"name": "h", "kind": "igroup", "values": [rd.randrange(1, 3) for _ in range(n)]})
    null_rate = rd.choice([0.0, 0.15, 0.3])
    xv = [None if rd.random() < null_rate else rd.randrange(-8, 41) / 4.0 for _ in range(n)]
    u = rd.random()
    if u < 0.06:
        xv = [None] * n  # a column holding only nulls
    elif u < 0.12:
        xv = [(-0.0 if v == 0.0 else v) for v in xv]  # negative zero
    cols.append({"name": "x", "kind": "float", "values": xv})
    cols.append({"name": "n", "kind": "int",
                 "values": [None if rd.random() < null_rate else rd.randrange(-5, 21) for _ in range(n)]})
    if rd.random() < 0.15:
        # a nullable boolean column (pandas "boolean" extension dtype with NA; Polars Boolean with nulls)
        cols.append({"name": "f", "kind": "nbool", "values": [rd.choice([True, False, None]) for _ in range(n)]})
    if shape in (2, 3):
        svals = ["u", "v", "w", "uu"]
        if rd.random() < 0.3:
            svals = svals + ["U", "\u00e9", "\u65e5\u672c", " u", "o'k", 'q"t', "%_", ""]  # case, non-ASCII, blanks, quotes, wildcards, empty
        cols.append({"name": "s", "kind": "str", "values": [rd.choice(svals) for _ in range(n)]})
    if rd.random() < 0.06:
        # column names that are SQL keywords / differ from another column only in case
        ren = {"x": "order", "n": "Group"}
        for c in cols:
            c["name"] = ren.get(c["name"], c["name"])
    return {"name": name, "cols": cols}


def gen_twin_table(rd, base, name: str) -> Dict[str, Any]:
    """a table keyed on the same ids as `base` (same columns, other values and nulls, rows in another order):
    one-to-one joins, where the coalescing of common non-key columns does real work"""
    n = table_nrows(base)
    perm = list(range(n))
    rd.shuffle(perm)
    cols = []
    for c in base["cols"]:
        vals = [c["values"][i] for i in perm]
        if c["kind"] == "float":
            vals = [None if rd.random() < 0.3 else rd.randrange(-8, 41) / 4.0 for _ in range(n)]
        elif c["kind"] == "int":
            vals = [None if rd.random() < 0.3 else rd.randrange(-5, 21) for _ in range(n)]
        cols.append({"name": c["name"], "kind": c["kind"], "values": vals})
    out = {"name": name, "cols": cols}
    if "blocks" in base:
        out["blocks"] = base["blocks"]
    return out


def table_columns(t) -> Dict[str, str]:
    return {c["name"]: c["kind"] for c in t["cols"]}


def table_nrows(t) -> int:
    return len(t["cols"][0]["values"]) if t["cols"] else 0


def permute_table(t, perm: List[int]) -> Dict[str, Any]:
    return {"name": t["name"], "cols": [{"name": c["name"], "kind": c["kind"], "values": [c["values"][i] for i in perm]}
                                        for c in t["cols"]]}


def to_pandas(t, index: Optional[Dict[str, Any]] = None):
    import pandas as pd

    data = {}
    # one table in four carries its strings and nullable flags as object columns (the pre-3.0 pandas representation);
    # decided by the table's content, so that no random stream moves
    first = t["cols"][0]["values"] if t["cols"] else []
    obj = t.get("objstr")
    if obj is None:
        obj = (sum(v for v in first if isinstance(v, int)) + len(first)) % 4 == 1
    for c in t["cols"]:
        k = c["kind"]
        vals = list(c["values"])
        if obj and k == "nbool":
            data[c["name"]] = pd.Series([None if v is None else bool(v) for v in vals], dtype=object)
        elif obj and k not in ("key", "igroup", "int", "float"):
            data[c["name"]] = pd.Series(vals, dtype=object)
        elif k in ("key", "igroup"):
            data[c["name"]] = pd.Series(vals, dtype="int64")
        elif k == "int":
            if any(v is None for v in vals):
                data[c["name"]] = pd.Series([float("nan") if v is None else float(v) for v in vals], dtype="float64")
            else:
                data[c["name"]] = pd.Series(vals, dtype="int64")
        elif k == "float":
            data[c["name"]] = pd.Series([float("nan") if v is None else float(v) for v in vals], dtype="float64")
        elif k == "nbool":
            data[c["name"]] = pd.Series([pd.NA if v is None else bool(v) for v in vals], dtype="boolean")
        else:
            data[c["name"]] = pd.Series(vals, dtype="str")
    df = pd.DataFrame(data)
    if index is not None and index.get("kind", "default") != "default":
        df.index = make_index(index, df.shape[0])
    return df


def make_index(index: Dict[str, Any], n: int):
    import pandas as pd

    kind = index["kind"]
    lab = index.get("labels", list(range(n)))
    if kind == "offset":
        return pd.RangeIndex(start=100, stop=100 + n)
    if kind == "shuffled":
        return pd.Index([int(v) for v in lab[:n]], dtype="int64")
    if kind == "strings":
        return pd.Index([f"r{int(v)}" for v in lab[:n]], dtype="object")
    if kind == "datetime":
        return pd.DatetimeIndex([pd.Timestamp("2020-01-01") + pd.Timedelta(days=int(v)) for v in lab[:n]])
    if kind == "duplicate":
        return pd.Index([int(v) % 2 for v in lab[:n]], dtype="int64")
    if kind == "named":
        return pd.Index([int(v) for v in lab[:n]], dtype="int64", name="id")
    if kind == "multi":
        return pd.MultiIndex.from_arrays([[int(v) % 2 for v in lab[:n]], [int(v) for v in lab[:n]]], names=["p", "q"])
    if kind == "float":
        return pd.Index([float(v) + 0.5 for v in lab[:n]], dtype="float64")
    if kind == "nan":
        return pd.Index([float("nan") if i == 0 else float(v) for i, v in enumerate(lab[:n])], dtype="float64")
    if kind == "categorical":
        return pd.CategoricalIndex([f"c{int(v) % 3}" for v in lab[:n]])
    if kind == "tz":
        return pd.DatetimeIndex([pd.Timestamp("2021-06-01", tz="UTC") + pd.Timedelta(hours=int(v)) for v in lab[:n]])
    if kind == "stepped":
        return pd.RangeIndex(start=3 * n, stop=0, step=-3)[:n] if n else pd.RangeIndex(0)
    if kind == "named_column":
        # an index that carries the name of one of the table's own columns
        return pd.Index([int(v) * 7 for v in lab[:n]], dtype="int64", name="g")
    raise ValueError(kind)


INDEX_KINDS = ["default", "offset", "shuffled", "strings", "datetime", "duplicate", "named", "multi", "float", "nan",
               "categorical", "tz", "stepped", "named_column"]


def to_polars(t, lazy: bool = False):
    import polars as pl

    data = {}
    for c in t["cols"]:
        k = c["kind"]
        vals = list(c["values"])
        if k in ("key", "igroup"):
            data[c["name"]] = pl.Series(c["name"], vals, dtype=pl.Int64)
        elif k == "int":
            # same physical type as the pandas frame of the same table: float when nulls are present
            if any(v is None for v in vals):
                data[c["name"]] = pl.Series(c["name"], [None if v is None else float(v) for v in vals], dtype=pl.Float64)
            else:
                data[c["name"]] = pl.Series(c["name"], vals, dtype=pl.Int64)
        elif k == "float":
            data[c["name"]] = pl.Series(c["name"], [None if v is None else float(v) for v in vals], dtype=pl.Float64)
        elif k == "nbool":
            data[c["name"]] = pl.Series(c["name"], vals, dtype=pl.Boolean)
        else:
            data[c["name"]] = pl.Series(c["name"], vals, dtype=pl.String)
    df = pl.DataFrame(data)
    return df.lazy() if lazy else df


# ---------------------------------------------------------------- pipelines ---------------------------
NUMERIC = ("key", "int", "float", "nn")
ROW_FNS_2 = ["+", "-", "*"]
WINDOW_AGG = ["sum", "min", "max", "mean", "count", "size"]
WINDOW_ORD = ["cumsum", "cummax", "cummin", "_row_number", "shift", "first", "last", "ffill", "bfill", "rank", "cumprod",
              "cumcount", "_count"]
PROJECT_AGG = ["sum", "min", "max", "mean", "count", "size", "median", "nunique"]


def _fresh(cols: Dict[str, str], base: str) -> str:
    i = 0
    while True:
        nm = f"{base}{i if i else ''}"
        if nm not in cols:
            return nm
        i += 1


MAX_EST_ROWS = 2500  # keep every intermediate result small: a scenario is evaluated dozens of times


def gen_steps(r, cols: Dict[str, str], tables: Dict[str, Dict[str, str]], max_steps: int, depth: int = 0,
              allow: Optional[List[str]] = None, sizes: Optional[Dict[str, int]] = None,
              est0: int = 12) -> Tuple[List[Dict[str, Any]], Dict[str, str]]:
    cols = dict(cols)
    steps: List[Dict[str, Any]] = []
    sizes = sizes or {}
    est = [max(1, est0)]  # upper bound on the number of rows flowing out of the steps generated so far
    kinds_all = allow or ["extend", "extend", "wextend", "wextend", "owextend", "owextend", "project", "select_rows",
                          "select_columns", "drop_columns", "rename_columns", "map_columns", "order_rows", "order_limit",
                          "natural_join", "natural_join", "concat_rows", "selfjoin_summary", "convert_records"]
    n_steps = r.randint(1, max_steps)
    tries = 0
    while len(steps) < n_steps and tries < 40:
        tries += 1
        kind = r.choice(kinds_all)
        names = sorted(cols)
        nums = [c for c in names if cols[c] in NUMERIC]
        groups = [c for c in names if cols[c] in ("group", "igroup")]
        keys = [c for c in names if cols[c] == "key"]
        strs = [c for c in names if cols[c] == "str"]
        if kind == "extend" and nums:
            new = _fresh(cols, r.choice(["z", "y", "v"]))
            form = r.choice(["arith", "arith", "ifelse", "isnull", "coalesce", "maxmin", "abs", "neg", "const", "round",
                             "rowfn", "isin", "where", "strfn"])
            nbools = [c for c in names if cols[c] == "nbool"]
            if nbools and r.random() < 0.5:
                form = "boolcond"
            a = r.choice(nums)
            b = r.choice(nums)
            k = "float" if "float" in (cols[a], cols[b]) else "int"
            if form == "arith":
                rhs = b if r.random() < 0.6 else str(r.randrange(1, 4))
                expr = f"{a} {r.choice(ROW_FNS_2)} {rhs}"
                outk = k if rhs == b else cols[a] if cols[a] in ("int", "float") else "int"
            elif form == "ifelse":
                expr = f"({a} {r.choice(['>', '<', '>=', '<=', '==', '!='])} {r.randrange(0, 8)}).if_else({a}, {b})"
                outk = k
            elif form == "isnull":
                expr = f"({a}.is_null()).if_else(1, 0)"
                outk = "nn"
            elif form == "coalesce":
                expr = f"{a}.coalesce({r.randrange(0, 4)})"
                outk = cols[a] if cols[a] in ("float",) else "int"
            elif form == "maxmin":
                expr = f"{a}.{r.choice(['maximum', 'minimum'])}({b})"
                outk = k
            elif form == "abs":
                expr = f"({a} - {r.randrange(0, 5)}).abs()"
                outk = cols[a] if cols[a] in ("float",) else "int"
            elif form == "neg":
                expr = f"-{a}"
                outk = cols[a] if cols[a] in ("float",) else "int"
            elif form == "round":
                expr = f"{a}.floor()" if r.random() < 0.5 else f"{a}.ceil()"
                outk = "float"
            elif form == "boolcond":
                expr = f"{r.choice(nbools)}.{r.choice(['if_else', 'where'])}({a}, {b})"
                outk = k
            elif form == "rowfn":
                # row-wise functions: whatever they return for a value, they return it for that value in any row order
                fn1 = r.choice(["sign", "exp", "sqrt_abs", "log1p_abs", "fmax", "fmin", "is_bad", "coalesce_0", "round"])
                if fn1 == "sqrt_abs":
                    expr = f"{a}.abs().sqrt()"
                elif fn1 == "log1p_abs":
                    expr = f"{a}.abs().log1p()"
                elif fn1 in ("fmax", "fmin"):
                    expr = f"{a}.{fn1}({b})"
                elif fn1 == "is_bad":
                    expr = f"({a}.is_bad()).if_else(1, 0)"
                elif fn1 == "exp":
                    expr = f"({a} / 8).exp()"
                else:
                    expr = f"{a}.{fn1}()"
                outk = "float"
            elif form == "isin":
                expr = f"({a}.is_in([{r.randrange(0, 5)}, {r.randrange(5, 12)}])).if_else({b}, {r.randrange(0, 3)})"
                outk = k
            elif form == "where":
                expr = f"({a} > {r.randrange(0, 8)}).where({b}, {r.randrange(0, 3)})"
                outk = k
            elif form == "strfn" and strs:
                sc = r.choice(strs)
                fn1 = r.choice(["concat", "mapv", "as_str"])
                if fn1 == "concat":
                    expr = f"{sc}.concat({r.choice(strs)})"
                    new_kind = "str"
                elif fn1 == "mapv":
                    expr = f"{sc}.mapv({{'u': 1, 'v': 2, 'a': 3}}, 0)"
                    new_kind = "nn"
                else:
                    expr = f"{a}.coalesce(0).as_int64()"
                    new_kind = "nn"
                steps.append({"t": "extend", "ops": {new: expr}})
                cols[new] = "snull" if new_kind == "str" else new_kind
                continue
            elif form == "strfn":
                continue
            else:
                expr = str(r.randrange(0, 5))
                outk = "nn"
            ops_d = {new: expr}
            if r.random() < 0.25:
                new2 = _fresh({**cols, new: "int"}, "u")
                ops_d[new2] = f"{r.choice(nums)} {r.choice(ROW_FNS_2)} {r.randrange(1, 4)}"
                cols[new2] = "float"
            steps.append({"t": "extend", "ops": ops_d})
            cols[new] = outk if outk in ("int", "float", "nn") else "int"
        elif kind == "wextend" and nums and groups:
            new = _fresh(cols, "w")
            fn = r.choice(WINDOW_AGG)
            part = sorted(r.sample(groups, r.choice([1, 1, 2]) if len(groups) > 1 else 1))
            if r.random() < 0.12:
                fn, expr = "ngroup", "_ngroup()"  # group number: defined by the sorted partition keys
                part = sorted(r.sample(groups, min(2, len(groups))))
            elif fn == "size":
                expr = "_size()"
            elif fn == "count" and r.random() < 0.5:
                expr = "_count()"
                # _count in a window is a row number: needs an order; emit as ordered window instead
                continue
            elif fn in ("sum", "max") and r.random() < 0.2:
                expr = f"({r.randrange(1, 4)}).{fn}()"  # constant argument: the Pandas executor parks it in a scratch column
            else:
                expr = f"{r.choice([c for c in nums])}.{fn}()"
            wops = {new: expr}
            if r.random() < 0.2:
                # several constant-argument aggregations in one windowed step (each constant is parked in its own scratch column)
                c1, c2 = r.sample([1, 2, 3, 5, 7], 2)
                new2 = _fresh({**cols, new: "nn"}, "w")
                wops = {new: f"({c1}).sum()", new2: f"({c2}).{r.choice(['sum', 'max'])}()"}
                cols[new2] = "float"
                fn = "sum"
            steps.append({"t": "extend", "ops": wops, "partition_by": part})
            cols[new] = "nn" if fn in ("size", "count", "ngroup") else "float"
        elif kind == "owextend" and nums and (keys or groups):
            new = _fresh(cols, "o")
            fn = r.choice(WINDOW_ORD)
            part = sorted(r.sample(groups, 1)) if (groups and r.random() < 0.8) else []
            if keys:
                order = [r.choice(keys)]
                if r.random() < 0.3:
                    extra = [c for c in nums + strs if c not in order and c not in part]
                    if extra:
                        order = [r.choice(extra)] + order
            else:
                continue
            rev = [c for c in order if r.random() < 0.35]
            v = r.choice(nums)
            if fn == "_row_number":
                expr = "_row_number()"
            elif fn == "_count":
                expr = "_count()"
            elif fn == "cumsum" and r.random() < 0.2:
                expr = "(1).cumsum()"
            elif fn == "shift":
                expr = f"{v}.shift({r.choice(['', '1', '2', '-1'])})".replace("shift()", "shift()")
            else:
                expr = f"{v}.{fn}()"
            st = {"t": "extend", "ops": {new: expr}, "partition_by": part, "order_by": order, "reverse": rev}
            newk = "nn" if fn in ("_row_number", "rank", "_count", "cumcount") else ("float" if cols[v] == "float" else "int")
            # an unordered window over the same partition right next to the ordered one (independent columns): the
            # builder decides whether the two may share a node; the ordered step must keep its ordering either way
            neighbour = None
            if r.random() < 0.3:
                new2 = _fresh({**cols, new: newk}, "w")
                neighbour = {"t": "extend", "ops": {new2: f"{r.choice(nums)}.{r.choice(['sum', 'max', 'min', 'mean'])}()"},
                             "partition_by": list(part)}
                before = r.random() < 0.3
                if before:
                    steps.append(neighbour)
            steps.append(st)
            if neighbour is not None:
                if not before:
                    steps.append(neighbour)
                cols[new2] = "float"
            cols[new] = newk
        elif kind == "project" and nums and depth < 2 and r.random() < 0.12:
            ops = {}
            for _ in range(r.choice([1, 2])):
                fn = r.choice(["sum", "min", "max", "mean", "count", "size"])
                new = _fresh(ops, r.choice(["p", "q", "t"]))
                ops[new] = "_size()" if fn == "size" else f"{r.choice(nums)}.{fn}()"
            steps.append({"t": "project", "ops": ops, "group_by": []})
            cols = {k_: "float" for k_ in ops}
        elif kind == "project" and nums and groups and depth < 2:
            by = sorted(r.sample(groups, r.choice([1, 1, 2]) if len(groups) > 1 else 1))
            ops = {}
            newcols = {c: cols[c] for c in by}
            for _ in range(r.choice([1, 2, 3])):
                fn = r.choice(PROJECT_AGG)
                new = _fresh({**newcols, **ops}, r.choice(["p", "q", "t"]))
                if fn == "size":
                    ops[new] = "_size()"
                    newcols[new] = "nn"
                elif fn == "sum" and r.random() < 0.25:
                    ops[new] = f"({r.choice([1, 2, 5])}).sum()"
                    newcols[new] = "float"
                else:
                    v = r.choice(nums)
                    ops[new] = f"{v}.{fn}()"
                    newcols[new] = "nn" if fn in ("count", "nunique") else "float"
            steps.append({"t": "project", "ops": ops, "group_by": by})
            cols = newcols
        elif kind == "select_rows" and names:
            if strs and r.random() < 0.2:
                expr = f"{r.choice(strs)} {r.choice(['==', '!='])} '{r.choice(['u', 'v', 'w'])}'"
            elif groups and r.random() < 0.3:
                gcol = r.choice(groups)
                expr = f"{gcol} {r.choice(['==', '!='])} " + ("1" if cols[gcol] == "igroup" else "'a'")
            elif nums:
                expr = f"{r.choice(nums)} {r.choice(['>', '<', '>=', '<=', '==', '!='])} {r.randrange(-2, 12)}"
                if r.random() < 0.25:
                    expr = f"({expr}) {r.choice(['and', 'or'])} ({r.choice(nums)} {r.choice(['>', '<='])} {r.randrange(0, 9)})"
            else:
                continue
            steps.append({"t": "select_rows", "expr": expr})
        elif kind == "select_columns" and len(names) > 1:
            keep = sorted(r.sample(names, r.randrange(1, len(names))))
            # keep pipelines interesting: always keep a key or a group when there is one
            for must in (keys[:1] + groups[:1]):
                if must not in keep:
                    keep.append(must)
            keep = [c for c in names if c in keep]
            if len(keep) == len(names):
                continue
            steps.append({"t": "select_columns", "cols": keep})
            cols = {c: cols[c] for c in keep}
        elif kind == "drop_columns" and len(names) > 2:
            cand = [c for c in names if c not in keys[:1] + groups[:1]]
            if not cand:
                continue
            drop = sorted(r.sample(cand, r.randrange(1, len(cand) + 1)))
            if len(drop) >= len(names):
                continue
            steps.append({"t": "drop_columns", "cols": drop})
            cols = {c: k for c, k in cols.items() if c not in drop}
        elif kind == "rename_columns" and names:
            old = r.choice(names)
            new = _fresh(cols, old + "r")
            steps.append({"t": "rename_columns", "map": {new: old}})
            cols[new] = cols.pop(old)
        elif kind == "map_columns" and len(names) > 1:
            if r.random() < 0.5:
                a, b = r.sample(names, 2)
                steps.append({"t": "map_columns", "map": {a: b, b: a}})
                cols[a], cols[b] = cols[b], cols[a]
            else:
                old = r.choice(names)
                new = _fresh(cols, old + "m")
                steps.append({"t": "map_columns", "map": {old: new}})
                cols[new] = cols.pop(old)
        elif kind in ("order_rows", "order_limit") and names:
            order = []
            cand = [c for c in names if cols[c] in ("key", "group", "igroup", "str", "nn")]
            if not cand:
                continue
            order = r.sample(cand, r.choice([1, 1, 2]) if len(cand) > 1 else 1)
            if keys and keys[0] not in order and (kind == "order_limit" or r.random() < 0.7):
                order.append(keys[0])
            rev = [c for c in order if r.random() < 0.4]
            st = {"t": "order_rows", "cols": order, "reverse": rev, "limit": None}
            if kind == "order_limit":
                st["limit"] = r.choice([0, 1, 1, 2, 3, 5])
                if st["limit"] == 0:
                    st["limit"] = 1
            steps.append(st)
            if kind == "order_rows" and r.random() < 0.3:
                # two orderings in a row sharing a column with the opposite direction: only the last one counts
                shared = r.choice(order)
                o2 = [shared] + ([keys[0]] if keys and keys[0] != shared else [])
                rev2 = [] if shared in rev else [shared]
                steps.append({"t": "order_rows", "cols": o2, "reverse": rev2, "limit": r.choice([None, 1, 2, 3])})
            if kind == "order_limit" and r.random() < 0.3:
                if len(order) > 1 and r.random() < 0.4:
                    # the same key set in another priority order, same directions, a tighter limit
                    o2 = list(reversed(order))
                    steps.append({"t": "order_rows", "cols": o2, "reverse": list(rev), "limit": r.choice([1, 1, 2])})
                else:
                    # a second ordering on the very same columns with another direction, after a limit
                    rev2 = [c for c in order if c not in rev] if r.random() < 0.7 else list(rev)
                    steps.append({"t": "order_rows", "cols": list(order), "reverse": rev2, "limit": r.choice([None, None, 1, 2])})
            elif kind == "order_limit" and len(names) > len(order) and r.random() < 0.4:
                # a limit in the middle of a pipeline whose consumer no longer carries (all of) the order columns
                victim = r.choice(order)
                steps.append({"t": "drop_columns", "cols": [victim]})
                cols = {c: k for c, k in cols.items() if c != victim}
        elif kind == "natural_join" and depth == 0 and tables and r.random() < 0.12:
            # key-less (cross) join: the Pandas executor joins on a scratch column it adds to both sides
            tn = r.choice(sorted(tables))
            if est[0] * max(1, sizes.get(tn, 12)) > MAX_EST_ROWS:
                continue
            est[0] = est[0] * max(1, sizes.get(tn, 12))
            c = r.choice(sorted(tables[tn]))
            newc = _fresh(cols, c + "x")
            steps.append({"t": "natural_join", "jointype": "CROSS", "on": [],
                          "b": {"src": tn, "steps": [{"t": "select_columns", "cols": [c]},
                                                       {"t": "rename_columns", "map": {newc: c}}]}})
            k0 = tables[tn][c]
            cols = {cc: ("int" if kk == "key" else kk) for cc, kk in cols.items()}
            cols[newc] = "int" if k0 == "key" else k0
        elif kind == "natural_join" and depth == 0 and tables:
            tn = r.choice(sorted(tables))
            rcols0 = tables[tn]
            rsteps, rcols = gen_steps(r, rcols0, {}, 2, depth=depth + 1,
                                      allow=["extend", "project", "select_rows", "select_columns", "rename_columns", "wextend"]) \
                if r.random() < 0.5 else ([], dict(rcols0))
            on_c = [c for c in names if c in rcols and cols[c] == rcols[c] and cols[c] in ("key", "group", "igroup")]
            if not on_c:
                continue
            on = sorted(r.sample(on_c, r.choice([1, 1, 2]) if len(on_c) > 1 else 1))
            key_on = [c for c in on_c if cols[c] == "key"]
            if key_on and r.random() < 0.4:
                on = [key_on[0]]  # one-to-one join on the unique key: every other common column is coalesced
            # common non-key columns are coalesced: require same kind
            bad = [c for c in rcols if c in cols and c not in on and not (cols[c] == rcols[c] or (cols[c] in NUMERIC and rcols[c] in NUMERIC))]
            if bad:
                continue
            jt = r.choice(["INNER", "LEFT", "RIGHT", "FULL", "INNER", "LEFT"])
            rn = max(1, sizes.get(tn, 12))
            one_to_one = any(cols[c] == "key" and rcols.get(c) == "key" for c in on)
            new_est = (est[0] + rn) if one_to_one else est[0] * rn + est[0] + rn
            if new_est > MAX_EST_ROWS:
                continue
            est[0] = new_est
            steps.append({"t": "natural_join", "b": {"src": tn, "steps": rsteps}, "on": on, "jointype": jt})
            newcols = {}
            for c, k in cols.items():
                k2 = k
                if c not in on:
                    if k == "key":
                        k2 = "int"
                    if jt in ("RIGHT", "FULL") and k in ("group", "igroup", "str", "nn"):
                        k2 = {"group": "gnull", "igroup": "int", "str": "snull", "nn": "int"}[k]
                elif k == "key" and not (rcols.get(c) == "key" and "key" in rcols.values()):
                    k2 = "igroup"
                elif k == "key":
                    k2 = "key"  # key joined to key stays unique on INNER/LEFT/RIGHT/FULL
                newcols[c] = k2
            for c, k in rcols.items():
                if c not in newcols:
                    k2 = k
                    if k == "key":
                        k2 = "int"
                    if jt in ("LEFT", "FULL") and k in ("group", "igroup", "str", "nn"):
                        k2 = {"group": "gnull", "igroup": "int", "str": "snull", "nn": "int"}[k]
                    newcols[c] = k2
                elif c not in on and cols[c] != k:
                    newcols[c] = "float" if "float" in (cols[c], k) else "int"
            # a key joined against a non-unique column is no longer unique
            for c in on:
                if cols[c] == "key" and rcols.get(c) != "key":
                    newcols[c] = "igroup"
                if cols[c] in ("group", "igroup"):
                    for c2 in list(newcols):
                        if newcols[c2] == "key":
                            newcols[c2] = "int"
            cols = newcols
        elif kind == "selfjoin_summary" and depth == 0 and nums and groups and (steps or allow == ["selfjoin_summary"]):
            # diamond: the pipeline so far is joined to a per-group summary of itself (one node, two consumers)
            by = [r.choice(groups)]
            v = r.choice(nums)
            new = _fresh(cols, "tot")
            fn = r.choice(["sum", "max", "min", "size"])
            expr = "_size()" if fn == "size" else f"{v}.{fn}()"
            steps.append({"t": "selfjoin_summary", "by": by, "ops": {new: expr}, "jointype": r.choice(["LEFT", "INNER"])})
            cols[new] = "nn" if fn == "size" else "float"
        elif kind == "convert_records" and depth == 0 and keys and len([c for c in nums if c not in keys]) >= 2:
            # record transform (cdata): every row record becomes a block of len(vals) rows (measure name, value), keyed
            # by the unique key (and optionally a group column); half of the time the inverse map follows at once and
            # folds the complete blocks back into rows
            cand = [c for c in nums if c not in keys]
            same = [c for c in cand if cols[c] == cols[cand[0]]]
            vals = sorted(r.sample(same, 2)) if (len(same) >= 2 and r.random() < 0.7) else sorted(r.sample(cand, r.choice([2, 2, 3]) if len(cand) > 2 else 2))
            if est[0] * len(vals) > MAX_EST_ROWS:
                continue
            rkeys = [keys[0]]
            gplain = [c for c in groups]
            if gplain and r.random() < 0.4:
                rkeys.append(r.choice(gplain))
            mcol = _fresh(cols, "m")
            vcol = _fresh({**cols, mcol: "group"}, "val")
            labels = ["m_" + c for c in vals]
            if r.random() < 0.15:
                labels[0] = r.choice(["M", " m", "o'k", "\u00e9"])
            st = {"t": "convert_records", "dir": "out", "keys": rkeys, "measure": mcol, "value": vcol, "labels": labels, "cols": vals}
            steps.append(st)
            before = dict(cols)
            est[0] = est[0] * len(vals)
            vk = "float" if any(cols[c] == "float" for c in vals) else ("int" if any(cols[c] == "int" for c in vals) else "nn")
            cols = {c: ("igroup" if cols[c] == "key" else cols[c]) for c in rkeys}
            cols[mcol] = "group"
            cols[vcol] = vk
            if r.random() < 0.5:
                steps.append(dict(st, dir="in"))
                est[0] = max(1, est[0] // len(vals))
                cols = {c: before[c] for c in rkeys}
                for c in vals:
                    cols[c] = before[c]
        elif kind == "concat_rows" and depth == 0 and tables:
            tn = r.choice(sorted(tables))
            rcols0 = tables[tn]
            common = [c for c in names if c in rcols0 and rcols0[c] == cols[c]]
            if len(common) < 1:
                continue
            common = [c for c in names if c in common]
            idc = r.choice([None, None, "src"])
            if idc in cols:
                idc = None
            if len(common) < len(names):
                steps.append({"t": "select_columns", "cols": common})
            # when the other table has exactly these columns it enters the concat as a bare table leaf
            bsteps = [] if sorted(rcols0) == sorted(common) else [{"t": "select_columns", "cols": common}]
            numc = [c for c in common if rcols0[c] in ("key", "int", "float")]
            if numc and r.random() < 0.25:
                bsteps = bsteps + [{"t": "select_rows", "expr": f"{numc[0]} < -1000"}]  # a side that evaluates to no rows
            steps.append({"t": "concat_rows", "b": {"src": tn, "steps": bsteps}, "id_column": idc})
            est[0] = est[0] + max(1, sizes.get(tn, 12))
            cols = {c: ("int" if cols[c] == "key" else cols[c]) for c in common}
            if idc:
                cols[idc] = "str"
    return steps, cols


def gen_pipeline(r, tables: Dict[str, Dict[str, Any]], max_steps: int = 7, want_diamond: bool = False) -> Dict[str, Any]:
    tcols = {n: table_columns(t) for n, t in tables.items()}
    src = r.choice(sorted(tables))
    others = {n: c for n, c in tcols.items()}
    sizes = {n: table_nrows(t) for n, t in tables.items()}
    head: List[Dict[str, Any]] = []
    cols0 = tcols[src]
    bl = tables[src].get("blocks")
    if bl is not None and r.random() < 0.7:
        # the source holds block records in whatever physical order the schedule gives them: fold them into row records
        head = [{"t": "convert_records", "dir": "in", "keys": list(bl["keys"]), "measure": bl["measure"], "value": bl["value"],
                 "labels": list(bl["labels"]), "cols": list(bl["cols"])}]
        cols0 = {k: ("key" if len(bl["keys"]) == 1 else "igroup") for k in bl["keys"]}
        cols0.update({c: "float" for c in bl["cols"]})
    steps, cols = gen_steps(r, cols0, others, max_steps, sizes=sizes, est0=sizes[src])
    steps = head + steps
    if want_diamond and steps and not any(st["t"] == "selfjoin_summary" for st in steps):
        more, cols2 = gen_steps(r, cols, {}, 1, allow=["selfjoin_summary"])
        steps = steps + more
        if more and r.random() < 0.5:
            tail, _ = gen_steps(r, cols2, {}, 2, allow=["extend", "select_rows", "order_rows", "project"])
            steps = steps + tail
    return {"src": src, "steps": steps}


# ---------------------------------------------------------------- JSON -> operator DAG ----------------
def build_pipeline(pipe, descrs: Dict[str, Any], upto: Optional[int] = None):
    """descrs: table name -> TableDescription; upto: number of top-level steps to apply (None = all)"""
    ops = descrs[pipe["src"]]
    steps = pipe["steps"] if upto is None else pipe["steps"][:upto]
    for st in steps:
        ops = apply_step(ops, st, descrs)
    return ops


def apply_step(ops, st, descrs):
    t = st["t"]
    if t == "extend":
        kw = {}
        if st.get("partition_by"):
            kw["partition_by"] = list(st["partition_by"])
        if st.get("order_by"):
            kw["order_by"] = list(st["order_by"])
        if st.get("reverse"):
            kw["reverse"] = list(st["reverse"])
        if "partition_by" in st and not st.get("partition_by") and st.get("order_by") is None:
            kw["partition_by"] = 1
        return ops.extend(dict(st["ops"]), **kw)
    if t == "project":
        return ops.project(dict(st["ops"]), group_by=list(st["group_by"]))
    if t == "select_rows":
        return ops.select_rows(st["expr"])
    if t == "select_columns":
        return ops.select_columns(list(st["cols"]))
    if t == "drop_columns":
        return ops.drop_columns(list(st["cols"]))
    if t == "rename_columns":
        return ops.rename_columns(dict(st["map"]))
    if t == "map_columns":
        return ops.map_columns(dict(st["map"]))
    if t == "order_rows":
        kw = {}
        if st.get("reverse"):
            kw["reverse"] = list(st["reverse"])
        if st.get("limit") is not None:
            kw["limit"] = int(st["limit"])
        return ops.order_rows(list(st["cols"]), **kw)
    if t == "natural_join":
        b = build_pipeline(st["b"], descrs)
        return ops.natural_join(b=b, on=list(st["on"]), jointype=st["jointype"])
    if t == "selfjoin_summary":
        summary = ops.project(dict(st["ops"]), group_by=list(st["by"]))
        return ops.natural_join(b=summary, on=list(st["by"]), jointype=st["jointype"])
    if t == "concat_rows":
        b = build_pipeline(st["b"], descrs)
        return ops.concat_rows(b=b, id_column=st.get("id_column"))
    if t == "convert_records":
        return ops.convert_records(record_map_of(st))
    raise ValueError(t)


def record_map_of(st):
    import pandas as pd
    import data_algebra.cdata as cd

    spec = cd.RecordSpecification(pd.DataFrame({st["measure"]: list(st["labels"]), st["value"]: list(st["cols"])}),
                                  record_keys=list(st["keys"]), control_table_keys=[st["measure"]])
    return cd.RecordMap(blocks_out=spec) if st["dir"] == "out" else cd.RecordMap(blocks_in=spec)


def pipeline_tables(pipe) -> List[str]:
    out = [pipe["src"]]
    for st in pipe["steps"]:
        if "b" in st:
            for n in pipeline_tables(st["b"]):
                if n not in out:
                    out.append(n)
    return out


def step_needs_total_order(st) -> Optional[Tuple[List[str], List[str]]]:
    """-> (partition columns, order columns) whose tuples must be unique and null-free, or None"""
    if st["t"] == "extend" and st.get("order_by"):
        return list(st.get("partition_by") or []), list(st["order_by"])
    if st["t"] == "order_rows" and st.get("limit") is not None:
        return [], list(st["cols"])
    return None


def describe_pipeline(pipe) -> List[str]:
    out = []
    for st in pipe["steps"]:
        d = st["t"]
        if st["t"] == "extend":
            d += ":" + ",".join(st["ops"].values())
            if st.get("partition_by"):
                d += " part=" + ",".join(st["partition_by"])
            if st.get("order_by"):
                d += " order=" + ",".join(st["order_by"])
        elif st["t"] == "natural_join":
            d += ":" + st["jointype"] + " on " + ",".join(st["on"])
        elif st["t"] == "order_rows":
            d += ":" + ",".join(st["cols"]) + (f" limit={st['limit']}" if st.get("limit") is not None else "")
        elif st["t"] == "project":
            d += ":" + ",".join(st["ops"].values()) + " by " + ",".join(st["group_by"])
        out.append(d)
    return out
