"""
Canonical forms of tables for oracles (DESIGN 3.5): column set + multiset of rows, None/NaN identified,
numbers compared by value at 1e-9 relative (ints, floats, bools and numpy scalars all become floats).
Never iterates a set; never uses default reprs of frames.
"""

import json
import math
from typing import Any, Dict, List, Optional


def canon_cell(v) -> Any:
    if v is None:
        return None
    if hasattr(v, "item") and not isinstance(v, (str, bytes)):
        try:
            v = v.item()
        except Exception:
            pass
    if isinstance(v, bool):
        return 1.0 if v else 0.0
    if isinstance(v, int):
        if abs(v) >= 2 ** 53:
            return "i:%d" % v  # beyond float precision: keep exact
        return float(v)
    if isinstance(v, float):
        if math.isnan(v):
            return None
        if math.isinf(v):
            return "inf" if v > 0 else "-inf"
        r = float(f"{v:.10g}")
        return r + 0.0
    if isinstance(v, str):
        return "s:" + v
    try:
        import pandas as pd

        if v is pd.NA or v is pd.NaT:
            return None
    except Exception:
        pass
    return "o:" + repr(v)


def frame_columns(df) -> List[str]:
    return [str(c) for c in df.columns]


def frame_column_values(df, col) -> List[Any]:
    """python values of a column for pandas or polars frames"""
    mod = type(df).__module__
    if mod.startswith("polars"):
        return df.get_column(col).to_list()
    names = [str(c) for c in df.columns]
    return df.iloc[:, names.index(col)].tolist()  # by position: labels may be non-strings (NaN) or repeated


def is_polars(df) -> bool:
    return type(df).__module__.startswith("polars")


def frame_rows(df, cols: Optional[List[str]] = None) -> List[List[Any]]:
    """rows in physical order, canonical cells, columns in the given order (default: frame order)"""
    if is_polars(df) and type(df).__name__ == "LazyFrame":
        df = df.collect()
    if cols is None:
        cols = frame_columns(df)
    data = [[canon_cell(v) for v in frame_column_values(df, c)] for c in cols]
    n = len(data[0]) if data else (df.shape[0] if hasattr(df, "shape") else 0)
    return [[data[j][i] for j in range(len(cols))] for i in range(n)]


def _row_key(row) -> str:
    return json.dumps(row, sort_keys=True)


def canon_table(df) -> Dict[str, Any]:
    """{"cols": sorted column names, "rows": rows (cells ordered like cols) sorted}"""
    if is_polars(df) and type(df).__name__ == "LazyFrame":
        df = df.collect()
    cols = sorted(frame_columns(df))
    rows = frame_rows(df, cols)
    rows.sort(key=_row_key)
    return {"cols": cols, "rows": rows}


def canon_from_records(cols: List[str], rows: List[Dict[str, Any]]) -> Dict[str, Any]:
    cs = sorted(cols)
    rr = [[canon_cell(r[c]) for c in cs] for r in rows]
    rr.sort(key=_row_key)
    return {"cols": cs, "rows": rr}


def tables_equal(a: Dict[str, Any], b: Dict[str, Any]) -> bool:
    if a["cols"] != b["cols"] or len(a["rows"]) != len(b["rows"]):
        return False
    for ra, rb in zip(a["rows"], b["rows"]):
        for x, y in zip(ra, rb):
            if not cells_equal(x, y):
                return False
    return True


def cells_equal(x, y) -> bool:
    if x is None or y is None:
        return x is None and y is None
    if isinstance(x, float) and isinstance(y, float):
        if x == y:
            return True
        return abs(x - y) <= 1e-9 * max(abs(x), abs(y), 1.0)
    return x == y


def describe_diff(a, b) -> str:
    if a["cols"] != b["cols"]:
        return f"columns {a['cols']} vs {b['cols']}"
    if len(a["rows"]) != len(b["rows"]):
        return f"{len(a['rows'])} rows vs {len(b['rows'])} rows: {a['rows'][:6]} vs {b['rows'][:6]}"
    for i, (ra, rb) in enumerate(zip(a["rows"], b["rows"])):
        if any(not cells_equal(x, y) for x, y in zip(ra, rb)):
            return f"cols {a['cols']}: sorted row {i}: {ra} vs {rb}"
    return "equal"
