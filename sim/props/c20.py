"""
C20 - Data spaces behave like a keyed store of tables.

System under simulation (all real code): one data space per run -
  "pd": DataModelSpace(SimPandasModel)      "pl": DataModelSpace(SimPolarsModel)
  "db": DBSpace(DBHandle(SQLiteModel, SimConnection(":memory:")))
driven by two or three simulated clients whose interleaved scripts form one history, checked after every
operation against a reference map (dict key -> list of row dicts) with its own small interpreter for the
pipeline fragment used (so execute() is compared with an independent computation, not with itself).

Fault-free configuration: strict oracle (success iff the model says so; a failed operation changes
nothing; keys()/retrieve()/describe() equal the model after every operation).
Fault-injecting configuration: F1 stmt-error / F2 stmt-interrupt / F3 commit-fail at the DB connection
seam, F4 eval-abort at the executor seam.  Relaxed, narrowly: an operation during which a fault fired may
fail; afterwards the key it touched holds its old or its new binding, nothing else changed, every listed
key is retrievable; all later fault-free operations are judged strictly again (incl. an epilogue that
inserts every key of the alphabet with allow_overwrite=False, which exposes debris left in the database).
"""

import copy as _copy
from typing import Any, Dict, List, Optional, Tuple

from sim.canon import canon_from_records, canon_table, describe_diff, tables_equal
from sim.core import EventLog, SimAbort, Stats, Violation, result_ok, result_violation, stream

PROP = "C20"
LONG1 = "k" * 66 + "1"
LONG2 = "k" * 66 + "2"
# user keys a,b,c; names that coincide with automatic ones; names that a careless sanitiser / length cut-off would merge
KEYS = ["a", "b", "c", "da_temp_1", "da_temp_2", "da_temp_3", "t 1", "t_1", LONG1, LONG2, "a_tmp", "b_1", "da_temp_10", "da_temp_9"]
REPLICAS = ["pd", "pl", "db"]
SPACE_NAME = {"pd": "DataModelSpace[pandas]", "pl": "DataModelSpace[polars]", "db": "DBSpace[sqlite]"}


# ---------------------------------------------------------------- reference interpreter ---------------
class ModelFail(Exception):
    """evaluation must fail: .kind is 'table' (a table the pipeline reads is absent) or 'column'"""

    def __init__(self, msg, kind="column"):
        super().__init__(msg)
        self.kind = kind


def m_project_cols(tab, cols):
    missing = [c for c in cols if c not in tab["cols"]]
    if missing:
        raise ModelFail(f"missing columns {missing}")
    return {"cols": list(cols), "rows": [{c: r[c] for c in cols} for r in tab["rows"]]}


def _cmp(a, opr, b) -> bool:
    return {"<": a < b, ">": a > b, "<=": a <= b, ">=": a >= b, "==": a == b, "!=": a != b}[opr]


def _arith(a, opr, b):
    return {"+": a + b, "-": a - b, "*": a * b}[opr]


def m_apply(tab, steps, model, prefix_fn=None):
    """apply pipeline steps to a table value {"cols","rows"}; raises ModelFail where evaluation must fail"""
    for st in steps:
        t = st["t"]
        cols = tab["cols"]
        if t == "extend":
            for c in [st["a"]] + ([st["b"]] if isinstance(st["b"], str) else []):
                if c not in cols:
                    raise ModelFail(f"missing column {c}")
            rows = []
            for r in tab["rows"]:
                r2 = dict(r)
                b = r[st["b"]] if isinstance(st["b"], str) else st["b"]
                r2[st["new"]] = _arith(r[st["a"]], st["opr"], b)
                rows.append(r2)
            tab = {"cols": cols + ([st["new"]] if st["new"] not in cols else []), "rows": rows}
        elif t == "select_rows":
            if st["col"] not in cols:
                raise ModelFail(f"missing column {st['col']}")
            tab = {"cols": cols, "rows": [r for r in tab["rows"] if _cmp(r[st["col"]], st["cmp"], st["v"])]}
        elif t == "select_columns":
            tab = m_project_cols(tab, st["cols"])
        elif t == "drop_columns":
            for c in st["cols"]:
                if c not in cols:
                    raise ModelFail(f"missing column {c}")
            tab = m_project_cols(tab, [c for c in cols if c not in st["cols"]])
        elif t == "rename":
            mp = st["map"]  # new -> old
            inv = {old: new for new, old in mp.items()}
            for old in inv:
                if old not in cols:
                    raise ModelFail(f"missing column {old}")
            ncols = [inv.get(c, c) for c in cols]
            if len(ncols) != len(_uniq(ncols)):
                raise ModelFail("rename collision")
            tab = {"cols": ncols, "rows": [{inv.get(c, c): r[c] for c in cols} for r in tab["rows"]]}
        elif t == "project":
            by = st["by"]
            for c in by + [a[1] for a in st["aggs"].values() if a[1] is not None]:
                if c not in cols:
                    raise ModelFail(f"missing column {c}")
            groups: List[Tuple[Any, List[Dict[str, Any]]]] = []
            for r in tab["rows"]:
                k = [r[c] for c in by]
                for gk, grows in groups:
                    if gk == k:
                        grows.append(r)
                        break
                else:
                    groups.append((k, [r]))
            rows = []
            for gk, grows in groups:
                o = {c: v for c, v in zip(by, gk)}
                for new, (fn, col) in st["aggs"].items():
                    if fn == "size":
                        o[new] = len(grows)
                    elif fn == "sum":
                        o[new] = sum(r[col] for r in grows)
                    elif fn == "min":
                        o[new] = min(r[col] for r in grows)
                    elif fn == "max":
                        o[new] = max(r[col] for r in grows)
                rows.append(o)
            tab = {"cols": list(by) + list(st["aggs"].keys()), "rows": rows}
        elif t in ("join", "selfjoin"):
            if t == "selfjoin":
                on = st["on"]
                for c in on:
                    if c not in cols:
                        raise ModelFail(f"missing column {c}")
                right = {"cols": [c if c in on else c + "_r" for c in cols],
                         "rows": [{(c if c in on else c + "_r"): r[c] for c in cols} for r in tab["rows"]]}
            else:
                right = m_eval_pipe(st["right"], model, st["right"].get("_src_cols"), st["right"].get("_src_key"))
                on = st["on"]
            for c in on:
                if c not in cols or c not in right["cols"]:
                    raise ModelFail(f"missing join column {c}")
            ncols = cols + [c for c in right["cols"] if c not in cols]
            rows = []
            if len(tab["rows"]) * len(right["rows"]) > MAX_JOIN_WORK:
                raise ModelFail("join too large for this simulation", kind="size")
            for lr in tab["rows"]:
                for rr in right["rows"]:
                    if all(lr[c] == rr[c] for c in on):
                        o = dict(rr)
                        # common non-key columns are coalesced: the left value, or the right one where the left is null
                        o.update({k_: v_ for k_, v_ in lr.items() if v_ is not None or k_ not in rr})
                        rows.append(o)
            tab = {"cols": ncols, "rows": rows}
        elif t == "concat_self":
            tab = {"cols": cols, "rows": tab["rows"] + [dict(r) for r in tab["rows"]]}
        else:
            raise ValueError(t)
    return tab


MAX_JOIN_WORK = 60000
MAX_ROWS = 6000


def _uniq(xs):
    out = []
    for x in xs:
        if x not in out:
            out.append(x)
    return out


def m_eval_pipe(pipe, model, src_cols, src_key):
    if src_key not in model:
        raise ModelFail(f"missing table {src_key}", kind="table")
    tab = m_project_cols(model[src_key], src_cols)
    return m_apply(tab, pipe["steps"], model)


# ---------------------------------------------------------------- building real ops -------------------
def build_ops(pipe, handles):
    """-> ViewRepresentation; annotates pipe (and nested right pipes) with the actual source key/columns"""
    from data_algebra.data_ops import TableDescription

    src = pipe["src"]
    td = handles.get(src["h"]) if src.get("h") is not None else None
    if td is None:
        td = TableDescription(table_name=src["key"], column_names=list(src["cols"]))
    pipe["_src_cols"] = [str(c) for c in td.column_names]
    pipe["_src_key"] = str(td.table_name)
    ops = td
    for st in pipe["steps"]:
        t = st["t"]
        if t == "extend":
            b = st["b"]
            ops = ops.extend({st["new"]: f"{st['a']} {st['opr']} {b}"})
        elif t == "select_rows":
            v = repr(st["v"]) if isinstance(st["v"], str) else str(st["v"])
            ops = ops.select_rows(f"{st['col']} {st['cmp']} {v}")
        elif t == "select_columns":
            ops = ops.select_columns(list(st["cols"]))
        elif t == "drop_columns":
            ops = ops.drop_columns(list(st["cols"]))
        elif t == "rename":
            ops = ops.rename_columns(dict(st["map"]))
        elif t == "project":
            aggs = {}
            for new, (fn, col) in st["aggs"].items():
                aggs[new] = "_size()" if fn == "size" else f"{col}.{fn}()"
            ops = ops.project(aggs, group_by=list(st["by"]))
        elif t == "selfjoin":
            on = list(st["on"])
            right = ops.rename_columns({c + "_r": c for c in ops.column_names if c not in on})
            ops = ops.natural_join(b=right, on=on, jointype="INNER")
        elif t == "join":
            right = build_ops(st["right"], handles)
            ops = ops.natural_join(b=right, on=list(st["on"]), jointype="INNER")
        elif t == "concat_self":
            ops = ops.concat_rows(b=ops, id_column=None)
        else:
            raise ValueError(t)
    return ops


def _stale_columns(pipe, model) -> bool:
    """True when a table the pipeline reads exists but no longer has exactly the described columns (fewer: Pandas and
    Polars refuse while SQLite reads the unknown double-quoted identifier as a string literal; more: generated SQL
    can hit name clashes with the undescribed columns). What a pipeline over a wrong description means is outside
    the property, so such an operation is not sent."""
    k = pipe["_src_key"]
    if k in model and sorted(model[k]["cols"]) != sorted(pipe["_src_cols"]):
        return True
    for st in pipe["steps"]:
        if st["t"] == "join" and _stale_columns(st["right"], model):
            return True
    return False


def pipe_tables(pipe) -> List[str]:
    out = [pipe.get("_src_key", pipe["src"]["key"])]
    for st in pipe["steps"]:
        if st["t"] == "join":
            out.extend(pipe_tables(st["right"]))
    return out


# ---------------------------------------------------------------- table values ------------------------
def table_to_model(spec) -> Dict[str, Any]:
    cols = [c["name"] for c in spec["cols"]]
    n = len(spec["cols"][0]["values"])
    return {"cols": cols, "rows": [{c["name"]: c["values"][i] for c in spec["cols"]} for i in range(n)]}


def table_to_frame(spec, replica: str):
    if replica == "pl":
        import polars as pl

        data = {}
        for c in spec["cols"]:
            dt = {"i": pl.Int64, "I": pl.Int64, "s": pl.String, "f": pl.Float64}[c["type"]]
            data[c["name"]] = pl.Series(c["name"], list(c["values"]), dtype=dt)
        return pl.DataFrame(data)
    import pandas as pd

    data = {}
    for c in spec["cols"]:
        if c["type"] == "f":
            data[c["name"]] = pd.Series([float("nan") if v is None else v for v in c["values"]], dtype="float64")
        else:
            data[c["name"]] = pd.Series(list(c["values"]), dtype="int64" if c["type"] in ("i", "I") else "str")
    return pd.DataFrame(data)


def model_canon(tab) -> Dict[str, Any]:
    return canon_from_records(tab["cols"], tab["rows"])


# ---------------------------------------------------------------- generation --------------------------
def _gen_table(rd, shape) -> Dict[str, Any]:
    n = rd.choice([0, 1, 2, 3, 3, 4, 5, 6])
    if rd.random() < 0.04:
        n = rd.choice([120, 1100, 2600, 5200])  # above any plausible batch / chunk / sample size
    cols = [{"name": "k", "type": "i", "values": [rd.randrange(1, 4) for _ in range(n)]}]
    if shape in (0, 1, 2):
        cols.append({"name": "x", "type": "i", "values": [rd.randrange(-5, 20) for _ in range(n)]})
    if shape in (1, 2):
        gv = ["p", "q"] if rd.random() < 0.7 else ["p", "q", "P", "o'k", "\u00e9", " p", "", "007", "1e5", "q "]
        cols.append({"name": "g", "type": "s", "values": [rd.choice(gv) for _ in range(n)]})
    if shape in (2, 3):
        cols.append({"name": "y", "type": "i", "values": [rd.randrange(0, 9) for _ in range(n)]})
    if rd.random() < 0.15:
        # integers beyond int32 / float53, carried along only (arithmetic on them would overflow int64 on the back ends)
        cols.append({"name": "b", "type": "I", "values": [rd.choice([7, 2 ** 31 + 5, 2 ** 53 + 1, -(2 ** 40)]) for _ in range(n)]})
    if rd.random() < 0.3:
        # a payload column with nulls that pipelines only carry along (select / drop / rename / join coalescing), never compute on
        cols.append({"name": "p", "type": "f",
                     "values": [None if rd.random() < 0.4 else rd.choice([rd.randrange(-4, 9) / 2.0, -0.0, 1e-7, 123456.789]) for _ in range(n)]})
    return {"cols": cols}


def _gen_steps(r, cols: Dict[str, str], belief, depth=0, allow_join=True, only=None):
    """cols: name -> 'i'|'s' (believed). returns (steps, resulting cols)"""
    steps = []
    cols = dict(cols)
    for _ in range(r.choice([0, 1, 1, 2, 2, 3, 4])):
        ints = sorted(c for c, t in cols.items() if t == "i")
        strs = sorted(c for c, t in cols.items() if t == "s")
        names = sorted(cols)
        kind = r.choice(only or ["extend", "extend", "select_rows", "select_columns", "drop_columns", "rename", "project",
                                 "join", "selfjoin", "concat_self"])
        if kind == "extend" and ints:
            new = r.choice([c for c in ["x", "y", "z", "w", "v", "u"] if c not in cols] or ["q9"])
            if new in cols:
                continue
            b = r.choice(ints) if r.random() < 0.5 else r.randrange(1, 4)
            steps.append({"t": "extend", "new": new, "a": r.choice(ints), "opr": r.choice(["+", "-", "*"]), "b": b})
            cols[new] = "i"
        elif kind == "select_rows" and names:
            if strs and r.random() < 0.3:
                steps.append({"t": "select_rows", "col": r.choice(strs), "cmp": r.choice(["==", "!="]), "v": r.choice(["p", "q"])})
            elif ints:
                steps.append({"t": "select_rows", "col": r.choice(ints), "cmp": r.choice(["<", ">", "<=", ">=", "==", "!="]),
                              "v": r.randrange(0, 6)})
        elif kind == "select_columns" and len(names) > 1:
            k = r.randrange(1, len(names))
            sel = sorted(r.sample(names, k))
            steps.append({"t": "select_columns", "cols": sel})
            cols = {c: cols[c] for c in sel}
        elif kind == "drop_columns" and len(names) > 1:
            k = r.randrange(1, len(names))
            drop = sorted(r.sample(names, k))
            steps.append({"t": "drop_columns", "cols": drop})
            cols = {c: t for c, t in cols.items() if c not in drop}
        elif kind == "rename" and names:
            old = r.choice(names)
            new = old + "2"
            if new not in cols:
                steps.append({"t": "rename", "map": {new: old}})
                cols[new] = cols.pop(old)
        elif kind == "project" and ints:
            by_c = [c for c in ("k", "g") if c in cols] or [c for c in names if cols[c] not in ("f", "I")][:1]
            if not by_c:
                continue
            by = [r.choice(by_c)]
            cand = [c for c in ints if c not in by]
            aggs = {}
            if cand and r.random() < 0.8:
                aggs["s"] = [r.choice(["sum", "min", "max"]), r.choice(cand)]
            if not aggs or r.random() < 0.5:
                aggs["n"] = ["size", None]
            aggs = {k_: v for k_, v in aggs.items() if k_ not in by}
            if not aggs:
                continue
            steps.append({"t": "project", "by": by, "aggs": aggs})
            cols = {by[0]: cols[by[0]], **{a: "i" for a in aggs}}
        elif kind == "join" and allow_join and depth == 0 and belief:
            rk = r.choice(sorted(belief))
            rcols = belief[rk]
            on = [c for c in ("k", "g") if c in cols and c in rcols and cols[c] == rcols[c]]
            if not on:
                continue
            on = [r.choice(on)]
            common_bad = [c for c in rcols if c in cols and c not in on and cols[c] != rcols[c]]
            if common_bad:
                continue
            rsteps, rc = _gen_steps(r, rcols, belief, depth=1, allow_join=False)
            if any(c not in rc for c in on):
                continue
            if any(c in cols and c not in on and cols[c] != t for c, t in rc.items()):
                continue
            right = {"src": {"h": None, "key": rk, "cols": sorted(rcols)}, "steps": rsteps}
            steps.append({"t": "join", "right": right, "on": on})
            for c, t in rc.items():
                cols.setdefault(c, t)
        elif kind == "selfjoin" and depth == 0:
            on_c = [c for c in ("k", "g") if c in cols]
            if not on_c or any((c + "_r") in cols for c in cols):
                continue
            on = [r.choice(on_c)]
            steps.append({"t": "selfjoin", "on": on})
            for c in list(cols):
                if c not in on:
                    cols[c + "_r"] = cols[c]
        elif kind == "concat_self" and depth == 0 and (only or r.random() < 0.5):
            steps.append({"t": "concat_self"})
    return steps, cols


def generate(run_seed: int, cfg: Dict[str, Any]) -> Dict[str, Any]:
    r = stream(run_seed, "ops")
    rd = stream(run_seed, "data")
    rf = stream(run_seed, "faults")
    rk = stream(run_seed, "knobs")
    rs = stream(run_seed, "schedule")
    replica = cfg.get("replica") or REPLICAS[run_seed % 3]
    faulty = bool(cfg.get("faulty", (run_seed // 3) % 2 == 1))
    knobs = {
        "use_with": rk.random() < 0.7, "annotate": rk.random() < 0.5, "initial_commas": rk.random() < 0.3,
        "sql_indent": rk.choice([" ", "  ", "\t"]), "allow_extend_merges": rk.random() < 0.7,
        "reverse_unordered": rk.random() < 0.5, "polars_lazy": rk.random() < 0.5,
    }
    tables = [_gen_table(rd, rd.randrange(4)) for _ in range(rk.choice([2, 3, 5]))]
    n_clients = rk.choice([2, 3])
    n_ops = rk.randint(cfg.get("min_ops", 4), cfg.get("max_ops", 22))
    n_keys = rk.choice([2, 3, 4, 6])
    alphabet = sorted(rk.sample(KEYS[:3], min(3, max(1, n_keys - 1)))) + KEYS[3:3 + max(0, n_keys - 2)]
    if rk.random() < 0.4:
        alphabet = alphabet + rk.choice([["t 1", "t_1"], [LONG1, LONG2], ["a", "a_tmp"], ["b", "b_1"], ["da_temp_1", "da_temp_10"], ["da_temp_10", "da_temp_9"]])
        alphabet = [k for i, k in enumerate(alphabet) if k not in alphabet[:i]]
    auto_rate = rk.choice([0.1, 0.3, 0.5])
    w = rk.choice([(4, 4, 2, 1, 1, 1), (6, 2, 2, 1, 1, 1), (2, 6, 2, 1, 1, 1), (3, 3, 4, 2, 1, 1)])
    # generation-time belief about columns per key, assuming fault-free outcomes (may be wrong: that is fine)
    belief: Dict[str, Dict[str, str]] = {}
    history_belief: List[Tuple[str, Dict[str, str], int]] = []  # (key, cols, op index that returned a description)
    ops: List[Dict[str, Any]] = []
    n_auto = 0
    for i in range(n_ops):
        client = rs.randrange(n_clients)
        kind = r.choices(["insert", "execute", "remove", "retrieve", "describe", "keys"], weights=w)[0]
        if kind == "execute" and not history_belief:
            kind = "insert"
        op: Dict[str, Any] = {"op": kind, "client": client}
        if kind == "insert":
            ti = r.randrange(len(tables))
            auto = r.random() < auto_rate
            op["key"] = None if auto else r.choice(alphabet)
            op["table"] = ti
            op["ow"] = r.choice([None, True, True, False])
            tcols = {c["name"]: c["type"] for c in tables[ti]["cols"]}
            if auto:
                n_auto += 1
                bk = f"da_temp_{n_auto}"
            else:
                bk = op["key"]
            if not (op["ow"] is False and bk in belief):
                belief[bk] = tcols
                history_belief.append((bk, tcols, len(ops)))
        elif kind == "execute":
            # source: usually a current belief, sometimes a stale description obtained earlier
            if r.random() < 0.25 or not belief:
                sk, scols, h = r.choice(history_belief)
            else:
                sk = r.choice(sorted(belief))
                scols = belief[sk]
                hs = [h_ for (k_, c_, h_) in history_belief if k_ == sk and c_ == scols]
                h = hs[-1] if hs else None
            use_handle = r.random() < 0.6
            steps, rc = _gen_steps(r, scols, belief)
            earlier = [o for o in ops if o["op"] == "execute"]
            if earlier and r.random() < 0.12:
                # motif: an input of an earlier pipeline is replaced by an execute (r := f(r)), then that pipeline runs again
                again = r.choice(earlier)
                k_in = again["pipe"]["src"]["key"]
                if k_in in belief:
                    # column-preserving, so that the earlier pipeline's description still fits the replaced table
                    qsteps, qrc = _gen_steps(r, belief[k_in], belief, allow_join=False, only=["select_rows", "concat_self", "select_rows"])
                    if not qsteps:
                        qsteps = [{"t": "concat_self"}]
                    ops.append({"op": "execute", "client": client, "key": k_in, "ow": True, "id": len(ops),
                                "pipe": {"src": {"h": None, "key": k_in, "cols": sorted(belief[k_in])}, "steps": qsteps},
                                "_scols": dict(belief[k_in]), "_rc": dict(qrc)})
                    belief[k_in] = qrc
                    history_belief.append((k_in, qrc, len(ops) - 1))
            if earlier and r.random() < 0.08:
                # motif: an input of an earlier pipeline is removed and re-created with other contents, then it runs again
                again = r.choice(earlier)
                k_in = again["pipe"]["src"]["key"]
                if k_in in belief:
                    same_shape = [ti for ti, t in enumerate(tables) if {c["name"]: c["type"] for c in t["cols"]} == belief[k_in]]
                    if same_shape:
                        ops.append({"op": "remove", "client": client, "key": k_in, "id": len(ops)})
                        ops.append({"op": "insert", "client": client, "key": k_in, "table": r.choice(same_shape),
                                    "ow": r.choice([None, False]), "id": len(ops)})
                        history_belief.append((k_in, belief[k_in], len(ops) - 1))
            if earlier and r.random() < 0.3:
                # the same pipeline again (a client re-running its query after the inputs may have changed)
                again = r.choice(earlier)
                sk, scols = again["pipe"]["src"]["key"], {c: "i" for c in again["pipe"]["src"]["cols"]}
                scols = again.get("_scols", scols)
                h = again["pipe"]["src"].get("h")
                use_handle = h is not None
                steps, rc = _copy.deepcopy(again["pipe"]["steps"]), dict(again.get("_rc", rc))
            auto = r.random() < auto_rate
            op["key"] = None if auto else (sk if r.random() < 0.2 else r.choice(alphabet))
            op["ow"] = r.choice([None, False, True, True])
            op["pipe"] = {"src": {"h": h if use_handle else None, "key": sk, "cols": sorted(scols)}, "steps": steps}
            op["_scols"], op["_rc"] = dict(scols), dict(rc)
            if auto:
                n_auto += 1
                bk = f"da_temp_{n_auto}"
            else:
                bk = op["key"]
            if not (op["ow"] in (None, False) and bk in belief):
                belief[bk] = rc
                history_belief.append((bk, rc, len(ops)))
        elif kind == "remove":
            op["key"] = r.choice(alphabet) if (r.random() < 0.3 or not belief) else r.choice(sorted(belief))
            belief.pop(op["key"], None)
        elif kind in ("retrieve", "describe"):
            op["key"] = r.choice(alphabet) if (r.random() < 0.3 or not belief) else r.choice(sorted(belief))
            if kind == "describe" and op["key"] in belief:
                history_belief.append((op["key"], belief[op["key"]], len(ops)))
        op["id"] = len(ops)
        ops.append(op)
    for o in ops:
        o.pop("_scols", None)
        o.pop("_rc", None)
    # epilogue (always fault-free): every key of the alphabet is inserted with allow_overwrite=False - must succeed
    # exactly for the keys that are absent - then read back
    for k in KEYS:
        ops.append({"op": "insert", "client": 0, "key": k, "table": 0, "ow": False, "epilogue": True, "id": len(ops)})
    faults: List[Dict[str, Any]] = []
    if faulty:
        n_f = rf.choice([1, 1, 2, 3])
        cand = [o["id"] for o in ops if o["op"] in ("insert", "execute", "remove") and not o.get("epilogue")]
        # bias towards operations that overwrite / remove a key the generator believes to exist
        for _ in range(n_f):
            if not cand:
                break
            j = rf.choice(cand)
            if replica == "db":
                u = rf.random()
                if u < 0.35:
                    f = {"op": j, "kind": "stmt-error", "n": rf.randrange(0, 9),
                         "msg": rf.choice(["disk I/O error", "database is locked", "database or disk is full"])}
                elif u < 0.6:
                    f = {"op": j, "kind": "stmt-error", "at": rf.choice(
                        ["SELECT", "DROP TABLE", "CREATE TABLE", "CREATE TABLE AS", "INSERT many", "SELECT sqlite_master"]),
                         "occurrence": rf.choice([0, 0, 1, 2]), "msg": "disk I/O error"}
                elif u < 0.8:
                    f = {"op": j, "kind": "commit-fail", "at": "COMMIT", "occurrence": rf.choice([0, 1]),
                         "msg": "disk I/O error"}
                else:
                    f = {"op": j, "kind": "stmt-interrupt",
                         "at": rf.choice(["CREATE TABLE AS", "INSERT many", "DROP TABLE", "SELECT", "CREATE TABLE"]),
                         "occurrence": 0, "m": rf.choice([0, 1, 2, 5, 10, 20, 40, 80])}
            else:
                f = {"op": j, "kind": "eval-abort", "at_call": rf.randrange(0, 12)}
            faults.append(f)
    return {"prop": PROP, "seed": run_seed, "replica": replica, "faulty": faulty, "knobs": knobs, "tables": tables,
            "ops": ops, "faults": faults}


# ---------------------------------------------------------------- execution ---------------------------
class Harness:
    def __init__(self, scn, log, stats):
        self.scn = scn
        self.log = log
        self.stats = stats
        self.replica = scn["replica"]
        self.conn = None
        self.plan = None
        self.space = None
        self._build()

    def _build(self):
        kn = self.scn["knobs"]
        if self.replica == "db":
            import data_algebra.SQLite
            import data_algebra.db_model
            import data_algebra.db_space
            from data_algebra.sql_format_options import SQLFormatOptions

            from sim import simdb

            self.conn = simdb.connect(self.log, self.stats)
            model = data_algebra.SQLite.SQLiteModel()
            model.default_SQL_format_options = SQLFormatOptions(
                use_with=kn["use_with"], annotate=kn["annotate"], initial_commas=kn["initial_commas"],
                sql_indent=kn["sql_indent"], warn_on_method_support=False, warn_on_novel_methods=False)
            model.allow_extend_merges = kn["allow_extend_merges"]
            model.prepare_connection(self.conn)
            if kn["reverse_unordered"]:
                self.conn.sim.inspecting += 1
                self.conn.execute("PRAGMA reverse_unordered_selects = 1")
                self.conn.sim.inspecting -= 1
            handle = data_algebra.db_model.DBHandle(db_model=model, conn=self.conn)
            self.space = data_algebra.db_space.DBSpace(handle)
            for f in self.scn["faults"]:
                if f["kind"] != "eval-abort":
                    self.conn.sim.plan.setdefault(f["op"], []).append(dict(f))
        else:
            import data_algebra.data_model_space

            from sim.simmodel import AbortPlan, make_sim_pandas_model, make_sim_polars_model

            self.plan = AbortPlan()
            if self.replica == "pd":
                dm = make_sim_pandas_model(self.plan)
            else:
                dm = make_sim_polars_model(self.plan, use_lazy_eval=kn["polars_lazy"])
            self.space = data_algebra.data_model_space.DataModelSpace(data_model=dm)

    # -- operation brackets: faults only fire inside
    def begin(self, i):
        if self.conn is not None:
            self.conn.sim.begin_op(i)
        if self.plan is not None:
            at = None
            for f in self.scn["faults"]:
                if f["kind"] == "eval-abort" and f["op"] == i:
                    at = f["at_call"]
            self.plan.enabled = True
            self.plan.arm(at)

    def end(self) -> List[str]:
        """-> list of fault descriptors that fired during the operation"""
        fired = []
        if self.conn is not None:
            sim = self.conn.sim
            fired = [f"{f['kind']}@{f['stmt']}" for f in sim.fired]
            sim.fired = []
            sim.end_op()
        if self.plan is not None:
            if self.plan.fired_at is not None:
                fired.append(f"eval-abort@{self.plan.fired_at}")
                self.stats.fault("eval-abort")
                self.log.emit("sim", "fault-fired", {"kind": "eval-abort", "site": self.plan.fired_at})
            self.plan.disarm()
            self.plan.fired_at = None
            self.plan.enabled = False
        return fired

    def inspect(self, fn):
        if self.conn is not None:
            self.conn.sim.inspecting += 1
        try:
            return fn()
        finally:
            if self.conn is not None:
                self.conn.sim.inspecting -= 1


def _case_twins(ops) -> bool:
    seen = {}
    for o in ops:
        k = o.get("key")
        if isinstance(k, str):
            if k.lower() in seen and seen[k.lower()] != k:
                return True
            seen[k.lower()] = k
    return False


def _is_descr(x) -> bool:
    return getattr(x, "node_name", None) == "TableDescription"


def _run(scn, log: EventLog, stats: Stats):
    from sim.core import fresh_models

    fresh_models()
    H = Harness(scn, log, stats)
    space = H.space
    rep = SPACE_NAME[scn["replica"]]
    model: Dict[str, Dict[str, Any]] = {}
    handles: Dict[int, Any] = {}
    last_fault = "no-fault"
    kinds: List[str] = []
    for step, op in enumerate(scn["ops"]):
        name = op["op"]
        kinds.append(name)
        pre = {k: v for k, v in model.items()}
        log.emit(f"client{op.get('client', 0)}", name, {k: v for k, v in op.items() if k not in ("pipe",)})
        # ---------------- what the reference says
        expect_ok = True
        new_value = None  # for writes
        touched = op.get("key")
        ops_obj = None
        client_side_reject = False
        if name == "insert":
            tab = table_to_model(scn["tables"][op["table"]])
            new_value = tab
            if touched is not None and touched in model and op["ow"] is False:
                expect_ok = False
        elif name == "execute":
            pipe = _copy.deepcopy(op["pipe"])
            try:
                ops_obj = build_ops(pipe, handles)
            except Exception as ex:
                # the client could not even form the pipeline from the description it holds (stale columns):
                # nothing is sent to the space
                client_side_reject = True
                stats.probe("pipeline-rejected-by-builder")
            if not client_side_reject:
                try:
                    if _stale_columns(pipe, model):
                        raise ModelFail("description does not match the table's current columns", kind="column")
                    new_value = m_eval_pipe(pipe, model, pipe["_src_cols"], pipe["_src_key"])
                    if len(new_value["rows"]) > MAX_ROWS:
                        # r := f(r) with joins grows geometrically along a history: keep tables small
                        raise ModelFail("result too large for this simulation", kind="size")
                except ModelFail as mf:
                    if mf.kind == "size":
                        stats.probe("result-too-large-not-sent")
                        continue
                    if mf.kind == "column":
                        # a stale description naming columns the table no longer has: Pandas/Polars refuse, SQLite
                        # silently reads a double-quoted unknown identifier as a string literal. The property does not
                        # say what a pipeline over a wrong description means, so the client does not send it.
                        stats.probe("stale-description-missing-column-not-sent")
                        continue
                    expect_ok = False
                    stats.probe("execute-reads-missing-table")
                if touched is not None and touched in model and op["ow"] in (None, False):
                    expect_ok = False
                if touched is not None and touched in pipe_tables(pipe):
                    stats.probe("execute-writes-a-key-it-reads")
                if any(st["t"] in ("selfjoin",) for st in pipe["steps"]):
                    stats.probe("diamond-pipeline")
        elif name in ("remove", "retrieve", "describe"):
            if touched not in model:
                expect_ok = False
        if client_side_reject:
            continue
        # ---------------- run it on the real space
        H.begin(op["id"])
        exc = None
        ret = None
        try:
            if name == "insert":
                # DBSpace converts whatever frame type it is handed: now and then it is handed a Polars frame
                as_pl = scn["replica"] == "db" and (op["id"] + op["table"]) % 5 == 0
                val = table_to_frame(scn["tables"][op["table"]], "pl" if as_pl else scn["replica"])
                kw = {}
                if op["ow"] is not None:
                    kw["allow_overwrite"] = op["ow"]
                if touched is not None:
                    kw["key"] = touched
                ret = space.insert(value=val, **kw)
            elif name == "execute":
                kw = {}
                if op["ow"] is not None:
                    kw["allow_overwrite"] = op["ow"]
                if touched is not None:
                    kw["key"] = touched
                ret = space.execute(ops_obj, **kw)
            elif name == "remove":
                ret = space.remove(touched)
            elif name == "retrieve":
                ret = space.retrieve(touched)
            elif name == "describe":
                ret = space.describe(touched)
            elif name == "keys":
                ret = space.keys()
        except Exception as ex:  # noqa: BLE001 - every failure mode of the space is an outcome, not a harness error
            exc = ex
        fired = H.end()
        if fired:
            last_fault = "fault@" + fired[-1].split("@", 1)[1] + "/" + name
        after_fault = (not fired) and last_fault != "no-fault"
        log.emit("space", "outcome", {"ok": exc is None, "exc": type(exc).__name__ if exc is not None else None,
                                      "fired": fired})

        def viol(cls, detail):
            # fault-free history: the signature names operation and discrepancy class.
            # After/while an injected DB fault: DBSpace keeps its key map in Python and the tables in the database and
            # has no recovery, so one un-atomic operation shows up as many different symptoms (dangling key, torn table,
            # lost binding, debris that makes a later operation misbehave). The signature therefore names only the
            # root cause - which statement of which operation failed - which is a closed set fixed by the code's
            # statement structure.
            if scn["replica"] == "db" and _case_twins(scn["ops"][: step + 1]):
                # SQLite table names are case-insensitive while the space's keys are not: a separate, listed finding
                return Violation((PROP, rep, "keys-differing-only-in-case-share-a-table"), f"{name}: {cls}: {detail}", step)
            if last_fault != "no-fault" and scn["replica"] == "db":
                when = "during" if fired else "later"
                return Violation((PROP, rep, "not-atomic-under-db-fault", last_fault),
                                 f"[{when}] {name}: {cls}: {detail}", step)
            if last_fault != "no-fault":
                return Violation((PROP, rep, name, cls, ("during:" if fired else "after:") + last_fault), detail, step)
            return Violation((PROP, rep, name, cls, "no-fault"), detail, step)

        # ---------------- automatic keys
        auto_key = None
        if name in ("insert", "execute") and touched is None and exc is None:
            if not _is_descr(ret):
                raise viol("return-type", f"{type(ret).__name__}")
            auto_key = str(ret.table_name)
            if auto_key in pre:
                stats.probe("auto-key-vs-user-key")
                raise viol("auto-key-replaced-existing",
                           f"automatic key {auto_key!r} was already bound (keys before: {sorted(pre)})")
            touched = auto_key
        # ---------------- judge
        if not fired:
            if expect_ok and exc is not None:
                raise viol("unexpected-failure", f"{type(exc).__name__}: {str(exc)[:300]}")
            if (not expect_ok) and exc is None:
                if name in ("insert", "execute"):
                    raise viol("write-succeeded-but-must-fail",
                               f"key={touched!r} ow={op.get('ow')!r} keys before: {sorted(pre)}")
                raise viol("succeeded-on-missing-key", f"key={touched!r}")
            if exc is None:
                if name in ("insert", "execute"):
                    model[touched] = new_value
                    if touched in pre:
                        stats.probe("overwrite-existing")
                    if _is_descr(ret):
                        handles[op["id"]] = ret
                    stats.nontrivial = True
                elif name == "remove":
                    del model[touched]
                    stats.nontrivial = True
                elif name == "retrieve":
                    got = canon_table(ret)
                    want = model_canon(model[touched])
                    if not tables_equal(got, want):
                        raise viol("retrieve-wrong-table", describe_diff(got, want))
                elif name == "describe":
                    if not _is_descr(ret):
                        raise viol("return-type", type(ret).__name__)
                    handles[op["id"]] = ret
                    if str(ret.table_name) != touched or sorted(str(c) for c in ret.column_names) != sorted(model[touched]["cols"]):
                        raise viol("describe-wrong", f"{ret.table_name} {list(ret.column_names)} vs {model[touched]['cols']}")
                elif name == "keys":
                    if sorted(ret) != sorted(model):
                        raise viol("keys-wrong", f"{sorted(ret)} vs {sorted(model)}")
            else:
                if name in ("insert", "execute"):
                    stats.probe("write-refused-as-model-says")
                else:
                    stats.probe("missing-key-refused")
            _full_check(H, space, model, viol, strict_describe=True)
        else:
            # relaxed oracle: the touched key holds its old or its new binding; nothing else changed
            stats.probe("op-with-fired-fault")
            _relaxed_check(H, space, model, pre, name, touched, op, new_value, expect_ok, exc, viol, stats)
            if exc is None and name in ("insert", "execute") and _is_descr(ret):
                handles[op["id"]] = ret
        if exc is not None and not fired and last_fault != "no-fault":
            stats.probe("op-refused-after-earlier-fault")
        stats.state({k: [model[k]["cols"], len(model[k]["rows"])] for k in sorted(model)})
    stats.ops_trigrams(kinds)


def _observe(H, space):
    """-> (sorted keys, {key: canon table or ('ERR', type)})"""
    keys = sorted(str(k) for k in H.inspect(lambda: space.keys()))
    vals = {}
    for k in keys:
        try:
            vals[k] = canon_table(H.inspect(lambda: space.retrieve(k)))
        except Exception as ex:  # noqa: BLE001
            vals[k] = ("ERR", type(ex).__name__ + ": " + str(ex)[:200])
    return keys, vals


def _full_check(H, space, model, viol, strict_describe):
    keys, vals = _observe(H, space)
    if keys != sorted(model):
        raise viol("keys-differ-from-model", f"space keys {keys} vs model {sorted(model)}")
    for k in keys:
        v = vals[k]
        if isinstance(v, tuple):
            raise viol("listed-key-not-retrievable", f"key {k!r}: {v[1]}")
        want = model_canon(model[k])
        if not tables_equal(v, want):
            raise viol("stored-table-differs", f"key {k!r}: " + describe_diff(v, want))
        if strict_describe:
            try:
                d = H.inspect(lambda: space.describe(k))
            except Exception as ex:  # noqa: BLE001
                raise viol("listed-key-not-describable", f"key {k!r}: {type(ex).__name__}")
            if str(d.table_name) != k or sorted(str(c) for c in d.column_names) != sorted(model[k]["cols"]):
                raise viol("describe-wrong", f"key {k!r}: {d.table_name} {list(d.column_names)} vs {model[k]['cols']}")


def _relaxed_check(H, space, model, pre, name, touched, op, new_value, expect_ok, exc, viol, stats):
    """after an operation during which an injected fault fired"""
    keys, vals = _observe(H, space)
    old = pre.get(touched) if touched is not None else None
    if name in ("insert", "execute"):
        new = new_value if expect_ok else old
    elif name == "remove":
        new = None if expect_ok else old
    else:
        new = old
    if touched is None:
        # automatic key and the operation failed: no change, or exactly one new key holding the new value
        extra = [k for k in keys if k not in pre]
        if len(extra) > 1:
            raise viol("other-keys-changed", f"keys {keys} vs before {sorted(pre)}")
        if extra:
            touched = extra[0]
            old = None
    others_expected = sorted(k for k in pre if k != touched)
    others_got = [k for k in keys if k != touched]
    if others_got != others_expected:
        raise viol("other-keys-changed", f"keys {keys} vs before {sorted(pre)} (touched {touched!r})")
    for k in others_expected:
        v = vals[k]
        if isinstance(v, tuple):
            raise viol("listed-key-not-retrievable", f"untouched key {k!r}: {v[1]}")
        if not tables_equal(v, model_canon(pre[k])):
            raise viol("untouched-key-changed", f"key {k!r}: " + describe_diff(v, model_canon(pre[k])))
    if touched is None:
        return
    # acceptable bindings (None = absent): an operation that reported success must have applied its effect
    acceptable = [("new", new)] if exc is None else [("old", old), ("new", new)]
    if touched in keys:
        v = vals[touched]
        if isinstance(v, tuple):
            raise viol("listed-key-not-retrievable", f"key {touched!r}: {v[1]}")
        for tag, b in acceptable:
            if b is not None and tables_equal(v, model_canon(b)):
                model[touched] = b
                stats.probe("fault:" + tag + "-binding")
                return
        what = "neither-old-nor-new" if exc is not None else "reported-success-but-not-new"
        raise viol("torn-binding:" + what,
                   f"key {touched!r} holds {v}; old={model_canon(old) if old else None} "
                   f"new={model_canon(new) if new else None}")
    for tag, b in acceptable:
        if b is None:
            model.pop(touched, None)
            stats.probe("fault:" + tag + "-binding")
            return
    what = "binding-lost" if exc is not None else "reported-success-but-absent"
    raise viol(what, f"key {touched!r} is gone; old={model_canon(old) if old else None} "
                     f"new={model_canon(new) if new else None}")


def execute(scn: Dict[str, Any]) -> Dict[str, Any]:
    import warnings

    log, stats = EventLog(), Stats()
    with warnings.catch_warnings():
        warnings.simplefilter("ignore")
        try:
            _run(scn, log, stats)
        except Violation as v:
            return result_violation(v, log, stats)
    return result_ok(log, stats)


# ---------------------------------------------------------------- minimisation hooks ------------------
LIST_FIELDS = ["ops", "faults"]


def truncate(scn, step):
    keep = scn["ops"][: step + 1]
    scn["ops"] = keep
    return scn


def reductions(scn):
    # drop pipeline steps
    for i, op in enumerate(scn["ops"]):
        if op["op"] == "execute":
            for k in range(len(op["pipe"]["steps"])):
                c = _copy.deepcopy(scn)
                del c["ops"][i]["pipe"]["steps"][k]
                yield c
            for k, st in enumerate(op["pipe"]["steps"]):
                if st["t"] == "join":
                    for q in range(len(st["right"]["steps"])):
                        c = _copy.deepcopy(scn)
                        del c["ops"][i]["pipe"]["steps"][k]["right"]["steps"][q]
                        yield c
            if op["pipe"]["src"].get("h") is not None:
                c = _copy.deepcopy(scn)
                c["ops"][i]["pipe"]["src"]["h"] = None
                yield c
    # drop table rows / columns
    for ti, t in enumerate(scn["tables"]):
        n = len(t["cols"][0]["values"])
        for i in range(n):
            c = _copy.deepcopy(scn)
            for col in c["tables"][ti]["cols"]:
                del col["values"][i]
            yield c
    # knobs to defaults
    defaults = {"use_with": True, "annotate": False, "initial_commas": False, "sql_indent": " ",
                "allow_extend_merges": True, "reverse_unordered": False, "polars_lazy": True}
    for k, v in defaults.items():
        if scn["knobs"].get(k) != v:
            c = _copy.deepcopy(scn)
            c["knobs"][k] = v
            yield c


def sample_view(scn):
    def show(op):
        d = {k: v for k, v in op.items() if k not in ("pipe", "client", "epilogue")}
        if "pipe" in op:
            d["pipe"] = {"src": op["pipe"]["src"], "steps": [s["t"] for s in op["pipe"]["steps"]]}
        return d

    return {"seed": scn["seed"], "replica": scn["replica"], "faulty": scn["faulty"], "faults": scn["faults"],
            "n_ops": len(scn["ops"]), "first_ops": [show(o) for o in scn["ops"] if not o.get("epilogue")][:10]}


# ---------------------------------------------------------------- check metadata ----------------------
LEVEL = "exploration"
LOG_HASHSEED_INDEPENDENT = False
TIERS = {
    "quick": {"runs": 2400, "gen": {"min_ops": 4, "max_ops": 22}, "soft_deadline_s": 150, "hard_timeout_s": 500,
              "n_echo": 12, "max_report": 6},
    "thorough": {"runs": 150000, "gen": {"min_ops": 4, "max_ops": 30}, "soft_deadline_s": 1500, "hard_timeout_s": 2700,
                 "n_echo": 48, "max_report": 12},
}
RULE = ("one evaluation = one seeded history of 4-22 (thorough: 4-30) operations by 2-3 interleaved clients "
        "(insert / execute / remove / retrieve / describe / keys with user keys a,b,c,da_temp_1..3, da_temp_9, da_temp_10 and automatic keys, "
        "pipelines built from descriptions obtained earlier in the same history, possibly stale, possibly reading the key "
        "they write) plus a 6-operation epilogue, on one real space (run-seed mod 3: DataModelSpace over the Pandas "
        "executor, DataModelSpace over the Polars executor, DBSpace over in-memory SQLite behind the simulated "
        "connection), checked after every operation against a reference map with its own pipeline interpreter. Runs with "
        "(seed//3) odd also inject 1-3 faults (F1 stmt-error, F2 stmt-interrupt, F3 commit-fail at the DB connection; "
        "F4 eval-abort at the executor call-backs). distinct = distinct scenario digest; non-trivial = at least one "
        "successful write or remove.")
EXPECTED_PROBES = ["overwrite-existing", "write-refused-as-model-says", "missing-key-refused",
                   "execute-reads-missing-table", "execute-writes-a-key-it-reads", "diamond-pipeline",
                   "op-with-fired-fault"]
COMPONENTS = {"real": ["data_algebra.data_model_space.DataModelSpace", "data_algebra.db_space.DBSpace",
                       "data_algebra.db_model.DBHandle/DBModel", "data_algebra.SQLite.SQLiteModel (SQL generation)",
                       "Pandas and Polars executors", "pandas.io.sql", "sqlite3 in-memory engine"],
              "model": ["dict key -> rows with an independent interpreter for the pipeline fragment"],
              "stub": [], "not_run": ["PostgreSQL, MySQL, BigQuery, Spark handles"]}
ASSUMPTIONS = [
    "seeded sampling of histories and fault points, not enumeration",
    "pipelines stay in a fragment (extend + - *, select_rows, select/drop/rename columns, inner natural_join, grouped "
    "sum/min/max/size, concat) over non-null small integers and strings where all three back ends are exact",
    "under injected faults only the touched key's old-or-new binding and the consistency of later fault-free "
    "operations are asserted (relaxed oracle); fault-free runs use the strict oracle and are counted separately",
    "clients never mutate frames they handed to or got from a space (the property does not promise copies)",
]
