"""
C19 - Evaluation never modifies the caller's tables and is repeatable.

System under simulation: one process, a pool of caller-owned input frames (Pandas with default and
non-default indexes, Polars eager and lazy; some captured by reference inside TableDescription.head via
data_algebra.data_ops.data()/descr()), a pool of pipelines over them, and 2-3 clients whose interleaved
scripts evaluate them through every public call style (eval, transform, ex, >>) on Pandas and Polars, mixed
with other operations that touch the same operator nodes (SQL generation and execution on a SQLite copy,
repr / to_python / columns_used, describe_table).  Fault F4 eval-abort kills an evaluation at a chosen
executor call-back, i.e. between operator nodes or inside a step while its scratch columns are live.

Invariants after every single operation, including failed and aborted ones:
 I1  every pool frame equals the snapshot taken at creation (values, dtypes, column labels and order, index
     labels, index type and names; Polars: schema and contents);
 I2  an evaluation identified by (pipeline, backend, call style) returns the same columns and the same row
     multiset as the first evaluation with that identity - in particular the first evaluation after an
     aborted one equals the first ever;
 I3  (cross-process, checked by the master on a sample) the per-operation canonical result digests are the
     same under another PYTHONHASHSEED.
"""

import copy as _copy
import json
import math
from typing import Any, Dict, List, Optional, Tuple

from sim import workload as W
from sim.canon import canon_table, describe_diff, tables_equal
from sim.core import EventLog, SimAbort, Stats, Violation, digest, result_ok, result_violation, stream

PROP = "C19"
STYLES_SINGLE = ["eval", "transform", "rshift", "ex", "ex_descr", "eval_fresh"]
STYLES_MULTI = ["eval", "ex", "eval_fresh"]


# ---------------------------------------------------------------- snapshots ---------------------------
def _cell(v) -> Any:
    if v is None:
        return ["none"]
    if hasattr(v, "item") and not isinstance(v, (str, bytes)):
        try:
            v = v.item()
        except Exception:
            pass
    if isinstance(v, bool):
        return ["b", v]
    if isinstance(v, int):
        return ["i", v]
    if isinstance(v, float):
        return ["nan"] if math.isnan(v) else ["f", repr(v)]
    if isinstance(v, str):
        return ["s", v]
    return ["o", repr(v)]


def snapshot(df) -> Dict[str, Any]:
    mod = type(df).__module__
    if mod.startswith("polars"):
        lazy = type(df).__name__ == "LazyFrame"
        d = df.collect() if lazy else df
        return {"lib": "polars", "lazy": lazy, "schema": [[str(n), str(t)] for n, t in d.schema.items()],
                "data": [[_cell(v) for v in d.get_column(c).to_list()] for c in d.columns]}
    idx = df.index
    return {
        "lib": "pandas",
        "columns": [_cell(c) for c in df.columns.tolist()],
        "columns_type": type(df.columns).__name__,
        "dtypes": [str(t) for t in df.dtypes],
        "index_type": type(idx).__name__,
        "index_dtype": str(idx.dtype),
        "index_names": [_cell(n) for n in idx.names],
        "index": [_cell(v) if not isinstance(v, tuple) else ["t", [_cell(x) for x in v]] for v in idx.tolist()],
        "data": [[_cell(v) for v in df.iloc[:, j].tolist()] for j in range(df.shape[1])],
        "shape": [int(df.shape[0]), int(df.shape[1])],
    }


def snapshot_diff(a, b) -> str:
    for k in a:
        if a[k] != b.get(k):
            return f"{k}: {str(a[k])[:200]} -> {str(b.get(k))[:200]}"
    return "equal"


# ---------------------------------------------------------------- generation --------------------------
NOISE = ["to_sql", "sql_exec", "repr", "to_python", "columns_used", "describe_table", "derive", "derive", "record_map", "house_eval"]


def generate(run_seed: int, cfg: Dict[str, Any]) -> Dict[str, Any]:
    rd = stream(run_seed, "data")
    rp = stream(run_seed, "program")
    ro = stream(run_seed, "ops")
    rs = stream(run_seed, "schedule")
    rf = stream(run_seed, "faults")
    rk = stream(run_seed, "knobs")
    faulty = bool(cfg.get("faulty", run_seed % 2 == 1))
    n_tables = rk.choice([1, 2, 2, 3])
    tables = {}
    tables_b = {}
    huge = rk.random() < float(cfg.get("huge_rate", 0.004))
    for i in range(n_tables):
        nm = f"t{i}"
        shape = W.pick_shape(rd)
        nr = rd.choice([0, 1, 2, 3, 4, 5, 6, 8, 10])
        if huge and i == 0:
            nr = 35000  # more than 100 000 cells: beyond any "small frame" path
        tables[nm] = W.gen_table(rd, nm, n_rows=nr, shape=shape)
        # a second batch of data for the same table name (same columns): evaluations alternate between the two
        nb = rd.choice([1, 2, 3, 5, 8])
        if "blocks" in tables[nm]:
            tables_b[nm] = W.gen_block_table(rd, nm, n_rows=nb * len(tables[nm]["blocks"]["labels"]), like=tables[nm]["blocks"])
        else:
            tables_b[nm] = W.gen_table(rd, nm, n_rows=nb, shape=shape)
    n_pipes = rk.choice([2, 3, 4, 6])
    pipes = []
    for _ in range(n_pipes):
        # windowed steps over constants and key-less joins are where scratch columns live: bias towards them
        pipes.append(W.gen_pipeline(rp, tables, max_steps=rk.choice([2, 4, 6]), want_diamond=rp.random() < 0.35))
    index = {n: {"kind": rs.choice(W.INDEX_KINDS), "labels": rs.sample(range(W.table_nrows(t)), W.table_nrows(t))}
             for n, t in tables.items()}
    if huge and rk.random() < 0.7:
        index["t0"] = {"kind": "default", "labels": []}  # the ordinary case for a large frame
    knobs = {"polars_lazy_eval": rk.random() < 0.6, "polars_lazy_frame": rk.random() < 0.3,
             "capture": rk.choice(["data", "data", "descr"])}
    n_clients = rk.choice([2, 3])
    n_ops = rk.randint(cfg.get("min_ops", 8), cfg.get("max_ops", 30))
    if huge:
        n_ops = min(n_ops, 10)
    abort_rate = rk.choice([0.1, 0.2, 0.35]) if faulty else 0.0
    noise_rate = rk.choice([0.1, 0.25])
    ops = []
    mutate_rate = rk.choice([0.0, 0.1, 0.2]) if faulty else 0.0
    warmup = rk.random() < 0.5 and not huge
    nid = 0
    if warmup:
        # every (pipeline, backend, batch) is evaluated once before anything can go wrong
        for pi in range(n_pipes):
            for backend in ("pandas", "polars"):
                for variant in (0, 1):
                    ops.append({"id": nid, "client": 0, "kind": "eval", "pipe": pi, "backend": backend, "style": "eval",
                                "variant": variant, "warmup": True})
                    nid += 1
    for _ in range(n_ops):
        i = nid
        nid += 1
        client = rs.randrange(n_clients)
        evals = [o["id"] for o in ops if o["kind"] == "eval" and o["backend"] == "pandas" and "abort_at" not in o]
        if evals and rf.random() < mutate_rate:
            # F6: the client changes, in place, a result frame an earlier evaluation handed to it
            ops.append({"id": i, "client": client, "kind": "mutate", "target": rf.choice(evals), "pipe": 0,
                        "how": rf.choice(["setcell", "addcol", "dropcol", "sort", "rename", "setcol", "reindex_labels"]),
                        "a": rf.randrange(4)})
            continue
        if ro.random() < noise_rate:
            ops.append({"id": i, "client": client, "kind": "noise", "what": ro.choice(NOISE), "pipe": ro.randrange(n_pipes)})
            continue
        pi = ro.randrange(n_pipes)
        single = len(W.pipeline_tables(pipes[pi])) == 1
        backend = ro.choice(["pandas", "pandas", "polars"])
        style = ro.choice(STYLES_SINGLE if single else STYLES_MULTI)
        variant = 0 if style in ("ex", "ex_descr") else ro.randrange(2)
        op = {"id": i, "client": client, "kind": "eval", "pipe": pi, "backend": backend, "style": style, "variant": variant}
        if style == "eval" and ro.random() < 0.25:
            op["extra"] = True
        if style == "eval_fresh":
            op.pop("abort_at", None)
        if style in ("eval", "transform", "rshift") and ro.random() < 0.3:
            # the very pipeline object that ex() uses (built on data()/descr() captures) applied to explicitly passed data
            op["cap"] = True
        if rf.random() < abort_rate:
            op["abort_at"] = rf.choice([0, 1, 1, 2, 2, 3, 3, 4, 5, 6, 8, 10, 13, 17])
        ops.append(op)
    return {"prop": PROP, "seed": run_seed, "faulty": faulty, "tables": tables, "tables_b": tables_b, "pipes": pipes,
            "index": index, "knobs": knobs, "ops": ops}


def _derive(o) -> int:
    """The client builds further pipelines on top of a pipeline object it keeps using, and throws them away: building
    a derived pipeline must not alter the one it is derived from (the builder merges extends, collapses orderings and
    column selections - all on objects the parent still owns). Purely a function of `o`; returns how many were built."""
    from data_algebra.view_representations import ExtendNode

    cols = [str(c) for c in o.column_names]
    if not cols:
        return 0
    c0, cl = cols[0], cols[-1]
    fresh = "zz_derived"
    builds = []
    if isinstance(o, ExtendNode):
        kw = {}
        if o.partition_by:
            kw["partition_by"] = list(o.partition_by)
        if o.order_by:
            kw["order_by"] = list(o.order_by)
        if o.reverse:
            kw["reverse"] = list(o.reverse)
        const = "7"
        if o.windowed_situation:
            const = "(1).cumsum()" if o.order_by else "(1).sum()"
        produced = [str(k) for k in o.ops.keys()]
        # re-define a column the last extend produced, with the same window: the builder merges the two steps
        builds.append(lambda: o.extend({produced[-1]: const}, **kw))
        builds.append(lambda: o.extend({produced[0]: const, fresh: const}, **kw))
        builds.append(lambda: o.extend({fresh: const}, **kw))
        if kw:
            builds.append(lambda: o.extend({fresh: "(1).sum()"}, partition_by=kw.get("partition_by", 1)))
    builds += [
        lambda: o.extend({cl: "3"}),
        lambda: o.extend({fresh: "1"}),
        lambda: o.select_rows(f"{c0}.is_null()"),
        lambda: o.order_rows([c0]),
        lambda: o.order_rows([cl], reverse=[cl], limit=1),
        lambda: o.rename_columns({fresh: c0}),
        lambda: o.select_columns([c0]),
        lambda: o.drop_columns([cl]) if len(cols) > 1 else None,
        lambda: o.project({fresh: "_size()"}, group_by=[c0]),
        lambda: o.natural_join(b=o, on=[c0], jointype="LEFT"),
        lambda: o.concat_rows(b=o),
    ]
    n = 0
    for b in builds:
        try:
            if b() is not None:
                n += 1
        except Exception:
            pass
    return n


# ---------------------------------------------------------------- execution ---------------------------
def _run(scn, log: EventLog, stats: Stats):
    import warnings

    warnings.simplefilter("ignore")
    import data_algebra
    import data_algebra.SQLite
    from data_algebra.data_ops import TableDescription, data, describe_table, descr

    from sim.simmodel import AbortPlan

    from sim.core import fresh_models

    fresh_models()
    kn = scn["knobs"]
    # ---- the pool of caller-owned frames
    pool: Dict[str, Any] = {}
    batches = [scn["tables"], scn.get("tables_b") or scn["tables"]]
    for vi, tabs_v in enumerate(batches):
        for n, t in tabs_v.items():
            pool[f"pd:{n}:{vi}"] = W.to_pandas(t, scn["index"][n] if W.table_nrows(t) == W.table_nrows(scn["tables"][n])
                                               else {"kind": scn["index"][n]["kind"], "labels": list(range(W.table_nrows(t)))})
            pool[f"pl:{n}:{vi}"] = W.to_polars(t, lazy=kn["polars_lazy_frame"])
    snaps = {k: snapshot(v) for k, v in pool.items()}
    plain = {n: TableDescription(table_name=n, column_names=[c["name"] for c in t["cols"]])
             for n, t in scn["tables"].items()}
    cap = data if kn["capture"] == "data" else descr
    def _cap(frame, n):
        try:
            return cap(**{n: frame})
        except Exception:  # e.g. a LazyFrame has no shape to describe
            return None

    captured = {"pandas": {n: _cap(pool["pd:" + n + ":0"], n) for n in scn["tables"]},
                "polars": {n: _cap(pool["pl:" + n + ":0"], n) for n in scn["tables"]}}
    # frames the descriptions captured (descr() keeps d.head(7), a separate object, for tables of more than 7 rows):
    # evaluation reads them too, so the F6 guard below watches them as well
    heads = {}
    for be in ("pandas", "polars"):
        for n, dsc in captured[be].items():
            if dsc is not None and getattr(dsc, "head", None) is not None:
                heads[be + ":" + n] = dsc.head
    head_snaps = {k: snapshot(v) for k, v in heads.items()}
    plan = AbortPlan()
    plan.enabled = False
    import data_algebra.data_model
    import data_algebra.polars_model
    import pandas as _pd
    import polars as _pl

    from sim.simmodel import Installed, install_hooks

    # the abort seam sits on the very model objects every call style uses: the process-wide default Pandas model,
    # the process-wide default Polars model (used by >>) and the Polars model handed to eval/transform/ex
    default_pd = data_algebra.data_model.lookup_data_model_for_dataframe(_pd.DataFrame({"x": [1]}))
    default_pl = data_algebra.data_model.lookup_data_model_for_dataframe(_pl.DataFrame({"x": [1]}))
    real_pl = data_algebra.polars_model.PolarsModel(use_lazy_eval=kn["polars_lazy_eval"])
    installed = Installed()
    for m in (default_pd, default_pl, real_pl):
        install_hooks(m, plan, installed)
    db = data_algebra.SQLite.example_handle()
    for n, t in scn["tables"].items():
        db.insert_table(W.to_pandas(t), table_name=n, allow_overwrite=True)
    built: Dict[Tuple[int, str], Any] = {}
    unsupported: Dict[Tuple[int, str, str], bool] = {}
    first: Dict[Tuple[int, str, str], Any] = {}
    kinds: List[str] = []
    aborted_since: Dict[Tuple[int, str], bool] = {}
    results: Dict[int, Any] = {}
    from sim.props.c25 import mutate_in_place

    def get_ops(pi: int, flavour: str):
        """flavour: plain | cap:pandas | cap:polars"""
        key = (pi, flavour)
        if key not in built:
            d = plain if flavour == "plain" else captured[flavour.split(":")[1]]
            try:
                if any(d.get(n) is None for n in W.pipeline_tables(scn["pipes"][pi])):
                    raise ValueError("table could not be captured")
                built[key] = W.build_pipeline(scn["pipes"][pi], d)
            except Exception as ex:
                built[key] = ex
        return built[key]

    determinate: Dict[Tuple[int, str, int], bool] = {}

    def is_determinate(pi: int, backend: str, variant: int) -> bool:
        """A pipeline with an ordered window or an order_rows(limit) over an ordering that is not total (ties, nulls)
        has no single relational result - which rows survive is the engine's free choice, and Polars does vary it
        from call to call. Such a pipeline is still evaluated (I1 applies) but its results are neither compared
        (I2) nor logged. Judged per backend on that backend's own prefix results, over fresh copies of the inputs."""
        key = (pi, backend, variant)
        if key in determinate:
            return determinate[key]
        from sim.props.c18 import _total, ordered_rows

        pipe = scn["pipes"][pi]
        ok = True
        src_tabs = batches[variant]
        try:
            if backend == "pandas":
                fresh = {n: W.to_pandas(src_tabs[n]) for n in W.pipeline_tables(pipe)}
                ev = lambda o: o.eval(fresh)  # noqa: E731
            else:
                fresh = {n: W.to_polars(src_tabs[n]) for n in W.pipeline_tables(pipe)}
                ev = lambda o: o.eval(fresh, data_model=real_pl)  # noqa: E731
            for upto in range(1, len(pipe["steps"]) + 1):
                need = W.step_needs_total_order(pipe["steps"][upto - 1])
                if need is None:
                    continue
                prev = W.build_pipeline(pipe, plain, upto=upto - 1)
                r0 = ev(prev)
                if type(r0).__name__ == "LazyFrame":
                    r0 = r0.collect()
                cols, rows = ordered_rows(r0)
                if _total(rows, cols, need[0], need[1]) is not None:
                    ok = False
                    break
        except Exception:
            ok = True  # the pipeline does not evaluate on this backend at all: nothing to compare anyway
        determinate[key] = ok
        if not ok:
            stats.probe("pipeline-without-a-single-result:" + backend)
        return ok

    def check_pool(opname: str, step: int, ctx: str):
        for k, v in pool.items():
            now = snapshot(v)
            if now != snaps[k]:
                raise Violation((PROP, k.split(":")[0], opname, "input-frame-modified", ctx),
                                f"pool frame {k}: " + snapshot_diff(snaps[k], now), step)

    try:
        for step, op in enumerate(scn["ops"]):
            pi = op["pipe"]
            pipe = scn["pipes"][pi]
            tabs = W.pipeline_tables(pipe)
            log.emit(f"client{op['client']}", op["kind"], {k: v for k, v in op.items() if k not in ("client",)})
            if op["kind"] == "mutate":
                kinds.append("mutate")
                tgt = results.get(op["target"])
                if tgt is not None and type(tgt).__module__.startswith("pandas"):
                    try:
                        if mutate_in_place(tgt, op["how"], op["a"]):
                            stats.fault("alias-mutate")
                    except Exception:
                        stats.probe("mutation-refused-by-pandas")
                # The property promises that *evaluation* leaves the inputs alone; it does not promise that a result
                # shares no memory with an input. (pandas 3.0.5: the result of pd.merge(how="right") written through
                # .iat changes the right input - reproduced with plain pandas.) If the client's own write reached an
                # input - a pool frame or the head(7) copy a description holds - the inputs are no longer "the same
                # inputs": stop the run here, judging nothing further.
                if any(snapshot(v) != snaps[k] for k, v in pool.items()) or \
                        any(snapshot(v) != head_snaps[k] for k, v in heads.items()):
                    stats.probe("own-result-write-reached-an-input")
                    return
                continue
            if op["kind"] == "noise":
                kinds.append("noise:" + op["what"])
                o = get_ops(pi, "plain")
                if not isinstance(o, Exception):
                    try:
                        w = op["what"]
                        if w == "to_sql":
                            db.to_sql(o)
                        elif w == "sql_exec":
                            db.read_query(o)
                        elif w == "repr":
                            repr(o)
                            str(o)
                        elif w == "to_python":
                            o.to_python(pretty=True)
                        elif w == "columns_used":
                            o.columns_used()
                        elif w == "record_map":
                            # the record map of a leading convert_records step applied to the caller's frames directly
                            st0 = pipe["steps"][0] if pipe["steps"] else None
                            if st0 is not None and st0["t"] == "convert_records":
                                rm = W.record_map_of(st0)
                                for fr in (pool["pd:" + tabs[0] + ":0"], pool["pl:" + tabs[0] + ":1"]):
                                    for how in (lambda: rm.transform(fr), lambda: fr >> rm, lambda: rm.act_on(fr)):
                                        try:
                                            how()
                                            stats.probe("record-map-applied-directly")
                                        except Exception:
                                            stats.probe("record-map-applied-directly:raised")
                        elif w == "house_eval":
                            # one evaluation on an explicitly supplied, locally customised Pandas model (its own arithmetic):
                            # whatever it computes is the caller's business, but it must stay confined to that call
                            from data_algebra.pandas_model import PandasModel

                            house = PandasModel()
                            off = 1000.0 + 10.0 * (step % 50) + float(int(scn["seed"]) % 7)
                            house.user_fun_map["+"] = lambda a, b, off=off: a + b + off
                            house.user_fun_map["*"] = lambda a, b, off=off: a * b + off
                            house.user_fun_map["-"] = lambda *a, off=off: (a[0] - a[1] + off) if len(a) == 2 else (-a[0] + off)
                            house.user_fun_map["abs"] = lambda a, off=off: abs(a) + off
                            o.eval({n: pool["pd:" + n + ":0"] for n in tabs}, data_model=house)
                            stats.probe("evaluated-on-a-customised-model")
                        elif w == "derive":
                            stats.probe("derived-pipelines-built", _derive(o))
                        elif w == "describe_table":
                            describe_table(pool["pd:" + tabs[0] + ":0"], table_name=tabs[0])
                            describe_table(pool["pl:" + tabs[0] + ":1"], table_name=tabs[0])
                    except Exception:
                        stats.probe("noise-op-raised")
                check_pool("noise:" + op["what"], step, "no-fault")
                continue
            backend, style = op["backend"], op["style"]
            variant = int(op.get("variant", 0))
            kinds.append(f"{style}:{backend}")
            prefix = "pd:" if backend == "pandas" else "pl:"
            inputs = {n: pool[f"{prefix}{n}:{variant}"] for n in tabs}
            flavour = ("cap:" + backend) if (style in ("ex", "ex_descr") or op.get("cap")) else "plain"
            o = get_ops(pi, flavour)
            if isinstance(o, Exception):
                stats.probe("pipeline-rejected-by-builder")
                continue
            # eval() with a brand-new model object is still "the same pipeline on the same inputs": one identity with eval()
            ident = (pi, backend, "eval" if style == "eval_fresh" else style, variant)
            abort_at = op.get("abort_at")
            exc = None
            res = None
            plan.enabled = abort_at is not None
            plan.arm(abort_at)
            if style == "eval" and op.get("extra"):
                # a data_map may carry tables the pipeline does not mention, and the same frame under two names
                others = [n for n in scn["tables"] if n not in tabs]
                inputs = dict(inputs)
                inputs["unused_table"] = pool[f"{prefix}{(others or tabs)[0]}:{1 - variant}"]
                inputs["alias_of_" + tabs[0]] = inputs[tabs[0]]
            try:
                if style == "eval":
                    res = o.eval(inputs) if backend == "pandas" else o.eval(inputs, data_model=real_pl)
                elif style == "eval_fresh":
                    import data_algebra.pandas_model

                    cold = data_algebra.pandas_model.PandasModel() if backend == "pandas" else \
                        data_algebra.polars_model.PolarsModel(use_lazy_eval=kn["polars_lazy_eval"])
                    res = o.eval(inputs, data_model=cold)
                elif style == "transform":
                    res = o.transform(inputs[tabs[0]]) if backend == "pandas" else o.transform(inputs[tabs[0]], data_model=real_pl)
                elif style == "rshift":
                    res = inputs[tabs[0]] >> o
                elif style == "ex":
                    res = o.ex(allow_limited_tables=(kn["capture"] == "descr")) if backend == "pandas" else \
                        o.ex(data_model=real_pl, allow_limited_tables=(kn["capture"] == "descr"))
                elif style == "ex_descr":
                    res = data_algebra.data_ops.ex(o, allow_limited_tables=(kn["capture"] == "descr"))
                else:
                    raise ValueError(style)
            except SimAbort as ex:
                exc = ex
            except Exception as ex:  # noqa: BLE001 - operator support is not this property's business
                exc = ex
            fired = plan.fired_at
            trace = list(plan.trace)
            plan.disarm()
            plan.enabled = False
            ctx = "no-fault"
            if fired is not None:
                stats.fault("eval-abort")
                stats.probe("abort@" + fired.split(":")[0])
                log.emit("sim", "fault-fired", {"site": fired})
                ctx = "abort@" + fired
                for k_ in list(first) + [ident]:
                    aborted_since[(k_[0], k_[1])] = True
            # I1: the caller's frames, after every operation
            check_pool(style, step, ctx if fired else ("after-abort" if any(aborted_since.values()) else "no-fault"))
            if isinstance(exc, SimAbort):
                if fired is None:
                    raise Violation((PROP, backend, style, "abort-without-fault"), "", step)
                log.emit(backend, "aborted", None)
                continue
            if exc is not None:
                if fired is not None:
                    continue
                # unsupported on this backend: must be unsupported every time (repeatability of failure is not
                # asserted by the property; only counted)
                unsupported[ident] = True
                stats.probe("evaluation-raises:" + backend)
                log.emit(backend, "raises", {"exc": type(exc).__name__})
                if ident in first:
                    raise Violation((PROP, backend, style, "second-evaluation-raises",
                                     "after-abort" if aborted_since.get((pi, backend)) else "no-fault"),
                                    f"pipeline {pi} evaluated before, now raises {type(exc).__name__}: {str(exc)[:300]}", step)
                continue
            if fired is not None:
                # the injected exception was swallowed by the executor and a result came back
                stats.probe("abort-swallowed")
            if res is None:
                raise Violation((PROP, backend, style, "no-result"), "", step)
            if type(res).__name__ == "LazyFrame":
                res = res.collect()
            # the result must not be one of the caller's objects
            for k, v in pool.items():
                if res is v:
                    raise Violation((PROP, backend, style, "returned-callers-object"), k, step)
            results[op["id"]] = res
            if getattr(res, "shape", (0,))[0] > 50000:
                stats.probe("result-too-large-not-compared")
                continue
            if not is_determinate(pi, backend, variant):
                log.emit(backend, "result-not-determined-by-the-pipeline", None)
                continue
            cols = [str(c) for c in res.columns]
            canon = canon_table(res)
            log.emit(backend, "result", {"cols": sorted(cols), "canon": canon})
            stats.nontrivial = stats.nontrivial or len(canon["rows"]) > 0
            if ident in unsupported:
                stats.probe("raised-before-answers-now")
            if ident not in first:
                first[ident] = (cols, canon)
                stats.probe("first-evaluation")
            else:
                c0, k0 = first[ident]
                after = "after-abort" if aborted_since.get((pi, backend)) else "no-fault"
                if sorted(cols) != sorted(c0) or not tables_equal(canon, k0):
                    raise Violation((PROP, backend, style, "re-evaluation-differs", after),
                                    f"pipeline {pi} {W.describe_pipeline(pipe)}: " + describe_diff(canon, k0), step)
                if cols != c0:
                    stats.probe("column-order-differs-on-re-evaluation")
                stats.probe("re-evaluation-checked" + (":after-abort" if after == "after-abort" else ""))
                if after == "after-abort":
                    aborted_since[(pi, backend)] = False
            stats.state({"backend": backend, "canon": canon})
    finally:
        installed.uninstall()
        try:
            db.close()
        except Exception:
            pass
    stats.ops_trigrams(kinds)


def execute(scn: Dict[str, Any]) -> Dict[str, Any]:
    log, stats = EventLog(), Stats()
    try:
        _run(scn, log, stats)
    except Violation as v:
        return result_violation(v, log, stats)
    return result_ok(log, stats)


# ---------------------------------------------------------------- minimisation hooks ------------------
LIST_FIELDS = ["ops"]


def truncate(scn, step):
    scn["ops"] = scn["ops"][: step + 1]
    return scn


def reductions(scn):
    used = sorted({o["pipe"] for o in scn["ops"]})
    # drop pipeline steps (from the end first)
    for pi in used:
        steps = scn["pipes"][pi]["steps"]
        for i in reversed(range(len(steps))):
            c = _copy.deepcopy(scn)
            del c["pipes"][pi]["steps"][i]
            if c["pipes"][pi]["steps"]:
                yield c
        for i, st in enumerate(steps):
            if "b" in st and st["b"]["steps"]:
                for k in range(len(st["b"]["steps"])):
                    c = _copy.deepcopy(scn)
                    del c["pipes"][pi]["steps"][i]["b"]["steps"][k]
                    yield c
            if st["t"] in ("extend", "project") and len(st["ops"]) > 1:
                for k in sorted(st["ops"]):
                    c = _copy.deepcopy(scn)
                    del c["pipes"][pi]["steps"][i]["ops"][k]
                    yield c
    # drop table rows
    for n in sorted(scn["tables"]):
        nr = W.table_nrows(scn["tables"][n])
        for i in range(nr):
            c = _copy.deepcopy(scn)
            for col in c["tables"][n]["cols"]:
                del col["values"][i]
            lab = c["index"][n].get("labels") or []
            c["index"][n]["labels"] = [q for q in lab if q != nr - 1]
            yield c
    for n in sorted(scn.get("tables_b", {})):
        nr = W.table_nrows(scn["tables_b"][n])
        for i in range(nr):
            if nr <= 1:
                break
            c = _copy.deepcopy(scn)
            for col in c["tables_b"][n]["cols"]:
                del col["values"][i]
            yield c
    for n in sorted(scn["index"]):
        if scn["index"][n]["kind"] != "default":
            c = _copy.deepcopy(scn)
            c["index"][n] = {"kind": "default", "labels": scn["index"][n].get("labels")}
            yield c
    # replace unused pipelines by a trivial one
    for pi in range(len(scn["pipes"])):
        if pi not in used and scn["pipes"][pi]["steps"]:
            c = _copy.deepcopy(scn)
            c["pipes"][pi]["steps"] = [{"t": "select_rows", "expr": "id > 0"}]
            yield c


def sample_view(scn):
    return {"seed": scn["seed"], "faulty": scn["faulty"], "knobs": scn["knobs"],
            "tables": {n: {"rows": W.table_nrows(t), "rows_second_batch": W.table_nrows(scn["tables_b"][n]),
                           "index": scn["index"][n]["kind"]} for n, t in scn["tables"].items()},
            "pipelines": [W.describe_pipeline(p) for p in scn["pipes"]][:3],
            "first_ops": [{k: v for k, v in o.items() if k != "id"} for o in scn["ops"][:10]]}


# ---------------------------------------------------------------- check metadata ----------------------
LEVEL = "exploration"
LOG_HASHSEED_INDEPENDENT = True
CROSS_HASHSEED_IS_VIOLATION = True
TIERS = {
    "quick": {"runs": 1600, "gen": {"min_ops": 8, "max_ops": 30}, "soft_deadline_s": 200, "hard_timeout_s": 600,
              "n_echo": 12, "n_echo_b": 50, "echo_b_lanes": 6, "minimise_budget_s": 60},
    "thorough": {"runs": 40000, "gen": {"min_ops": 8, "max_ops": 40}, "soft_deadline_s": 1700, "hard_timeout_s": 2700,
                 "n_echo": 32, "n_echo_b": 500, "echo_b_lanes": 8, "minimise_budget_s": 120},
}
RULE = ("one evaluation = one seeded scenario: a pool of caller-owned frames (1-3 tables x {Pandas with a seeded index "
        "labelling, Polars eager or lazy}, also captured by reference via data()/descr()), 2-6 pipelines of up to 6 steps "
        "from the C18 generator, and a history of 8-30 (thorough: 8-40) operations by 2-3 interleaved clients: eval / "
        "transform / >> / ex() on Pandas and Polars, SQL generation and execution, repr/to_python/columns_used, building (and discarding) derived pipelines on top of a live pipeline object, applying a record map to the frames directly, one-off evaluations on a customised Pandas model, "
        "describe_table; odd run-seeds abort 10-35% of the evaluations at a chosen executor call-back (F4) and let clients "
        "mutate, in place, result frames they were handed earlier (F6). After "
        "every operation all pool frames are compared with their creation snapshots and every result with the first "
        "result of the same (pipeline, backend, style). distinct = distinct scenario digest; non-trivial = at least "
        "one evaluation returned rows.")
EXPECTED_PROBES = ["first-evaluation", "re-evaluation-checked", "re-evaluation-checked:after-abort", "abort@node",
                   "abort@clean_copy"]
COMPONENTS = {"real": ["data_algebra builders and view_representations (eval, transform, ex, >>)", "Pandas executor",
                       "Polars executor (POLARS_MAX_THREADS=1)", "SQLite SQL generation + in-memory engine (noise ops)"],
              "model": ["creation-time snapshots of the pool frames", "first result per (pipeline, backend, style)"],
              "stub": [], "not_run": []}
ASSUMPTIONS = [
    "seeded sampling of pipelines, inputs and operation histories",
    "re-evaluation is compared as column set + row multiset (the property promises the same result, not the same "
    "incidental row order of an unordered relation)",
    "an evaluation that raises for lack of operator support on a backend is counted, not judged",
    "_uniform and other random-number operators are never generated (excluded by the property)",
]
