"""
C18 - Results ignore input row order (and index), and order_rows orders and limits.

What the environment may choose and a relational result must not depend on is handed to a seeded
scheduler: per input table a row permutation; for Pandas an index labelling; for SQLite the load order,
PRAGMA reverse_unordered_selects, automatic_index, a seeded set of secondary indexes; Polars eager vs lazy evaluation
and frame type are swarm knobs shared by baseline and schedules.  The identity schedule is the baseline.

Oracle 1 (invariance): for every prefix of the pipeline and every backend that answers under the baseline,
the canonical result (column set + row multiset) under every schedule equals the baseline's.
Oracle 2 (order/limit): a prefix ending in order_rows returns rows sorted by the given columns with the given
reversals, a sub-multiset of the step's input, and with a limit under a total order exactly the first
`limit` rows of the reference order - compared in order, on every backend, under every schedule.
The property only speaks about orderings that are total within each partition: before an ordered window or
an order_rows(limit) is checked, the (partition + order) tuples of the baseline prefix result must be unique
and null-free, otherwise the scenario stops at that step.
"""

import copy as _copy
import json
from typing import Any, Dict, List, Optional, Tuple

from sim import workload as W
from sim.canon import canon_table, describe_diff, frame_columns, frame_rows, tables_equal, cells_equal
from sim.core import EventLog, Stats, Violation, result_ok, result_violation, stream

PROP = "C18"
BACKENDS = ["pandas", "polars", "sqlite"]


# ---------------------------------------------------------------- generation --------------------------
def gen_schedule(rs, tables: Dict[str, Any], full: bool = True) -> Dict[str, Any]:
    perm, index = {}, {}
    for name in sorted(tables):
        n = W.table_nrows(tables[name])
        p = list(range(n))
        mode = rs.choice(["shuffle", "shuffle", "reverse", "identity", "swap", "sorted", "sorted"])
        if mode == "shuffle":
            rs.shuffle(p)
        elif mode == "sorted" and n > 1:
            # rows physically sorted by some column (how tables usually arrive), ascending or descending
            col = rs.choice(tables[name]["cols"])
            vals = col["values"]
            p.sort(key=lambda i: (vals[i] is None, vals[i] if vals[i] is not None else 0, i))
            if rs.random() < 0.5:
                p.reverse()
        elif mode == "reverse":
            p.reverse()
        elif mode == "swap" and n > 1:
            i, j = rs.sample(range(n), 2)
            p[i], p[j] = p[j], p[i]
        perm[name] = p
        kind = rs.choice(W.INDEX_KINDS)
        lab = list(range(n))
        rs.shuffle(lab)
        index[name] = {"kind": kind, "labels": lab}
    names = sorted(tables)
    idx = []
    for name in names:
        cols = [c["name"] for c in tables[name]["cols"]]
        for _ in range(rs.choice([0, 0, 1, 2])):
            k = rs.choice([1, 1, 2])
            idx.append([name, rs.sample(cols, min(k, len(cols))), rs.random() < 0.3])
    load = list(names)
    rs.shuffle(load)
    return {"perm": perm, "index": index,
            "db": {"reverse_unordered": rs.random() < 0.5, "automatic_index": rs.random() < 0.7, "indexes": idx,
                   "load_order": load}}


def identity_schedule(tables) -> Dict[str, Any]:
    return {"perm": {n: list(range(W.table_nrows(t))) for n, t in tables.items()},
            "index": {n: {"kind": "default"} for n in tables},
            "db": {"reverse_unordered": False, "automatic_index": True, "indexes": [], "load_order": sorted(tables)}}


def generate(run_seed: int, cfg: Dict[str, Any]) -> Dict[str, Any]:
    rd = stream(run_seed, "data")
    rp = stream(run_seed, "program")
    rs = stream(run_seed, "schedule")
    rk = stream(run_seed, "knobs")
    n_tables = rk.choice([1, 2, 2, 3])
    tables = {}
    for i in range(n_tables):
        nm = f"t{i}"
        if i > 0 and rk.random() < 0.5:
            tables[nm] = W.gen_twin_table(rd, tables["t0"], nm)
        else:
            tables[nm] = W.gen_table(rd, nm)
    pipe = W.gen_pipeline(rp, tables, max_steps=cfg.get("max_steps", 7))
    k = int(cfg.get("schedules", 3))
    schedules = [gen_schedule(rs, tables) for _ in range(k)]
    knobs = {"use_with": rk.random() < 0.7, "annotate": rk.random() < 0.5, "initial_commas": rk.random() < 0.3,
             "sql_indent": rk.choice([" ", "  "]), "allow_extend_merges": rk.random() < 0.7,
             # Polars eager/lazy evaluation and frame type: a swarm knob shared by the baseline and every schedule
             # (mixing them is not a row permutation or a re-indexing, so it is not part of the checked schedule)
             "polars_lazy_eval": rk.random() < 0.6, "polars_lazy_frame": rk.random() < 0.3}
    return {"prop": PROP, "seed": run_seed, "tables": tables, "pipe": pipe, "schedules": schedules, "knobs": knobs}


# ---------------------------------------------------------------- execution ---------------------------
class Env:
    """inputs of one schedule, built lazily per backend"""

    def __init__(self, scn, sched, knobs):
        self.scn = scn
        self.sched = sched
        self.knobs = knobs
        self.tabs = {n: W.permute_table(t, sched["perm"][n]) for n, t in scn["tables"].items()}
        self._pd = None
        self._pl = None
        self._db = None
        self._plm = None

    def pandas_inputs(self):
        if self._pd is None:
            self._pd = {n: W.to_pandas(t, self.sched["index"][n]) for n, t in self.tabs.items()}
        return self._pd

    def polars_inputs(self):
        if self._pl is None:
            self._pl = {n: W.to_polars(t, lazy=self.knobs["polars_lazy_frame"]) for n, t in self.tabs.items()}
        return self._pl

    def polars_model(self):
        if self._plm is None:
            import data_algebra.polars_model

            self._plm = data_algebra.polars_model.PolarsModel(use_lazy_eval=self.knobs["polars_lazy_eval"])
        return self._plm

    def db(self):
        if self._db is None:
            import sqlite3

            import data_algebra.SQLite
            import data_algebra.db_model
            from data_algebra.sql_format_options import SQLFormatOptions

            kn = self.knobs
            conn = sqlite3.connect(":memory:")
            model = data_algebra.SQLite.SQLiteModel()
            model.default_SQL_format_options = SQLFormatOptions(
                use_with=kn["use_with"], annotate=kn["annotate"], initial_commas=kn["initial_commas"],
                sql_indent=kn["sql_indent"], warn_on_method_support=False, warn_on_novel_methods=False)
            model.allow_extend_merges = kn["allow_extend_merges"]
            model.prepare_connection(conn)
            h = data_algebra.db_model.DBHandle(db_model=model, conn=conn)
            d = self.sched["db"]
            for n in d["load_order"]:
                h.insert_table(W.to_pandas(self.tabs[n], self.sched["index"][n]), table_name=n, allow_overwrite=True)
            for i, (tn, cols, desc) in enumerate(d["indexes"]):
                cl = ", ".join('"' + c + '"' + (" DESC" if desc else "") for c in cols)
                conn.execute(f'CREATE INDEX "ix_{i}" ON "{tn}" ({cl})')
            conn.execute(f"PRAGMA reverse_unordered_selects = {1 if d['reverse_unordered'] else 0}")
            conn.execute(f"PRAGMA automatic_index = {1 if d['automatic_index'] else 0}")
            self._db = h
        return self._db

    def close(self):
        if self._db is not None:
            try:
                self._db.close()
            except Exception:
                pass
            self._db = None


def descriptions(scn):
    from data_algebra.data_ops import TableDescription

    return {n: TableDescription(table_name=n, column_names=[c["name"] for c in t["cols"]])
            for n, t in scn["tables"].items()}


def evaluate(ops, env: Env, backend: str):
    if backend == "pandas":
        return ops.eval(env.pandas_inputs())
    if backend == "polars":
        return ops.eval(env.polars_inputs(), data_model=env.polars_model())
    return env.db().read_query(ops)


def ordered_rows(df) -> Tuple[List[str], List[List[Any]]]:
    cols = frame_columns(df)
    return cols, frame_rows(df, cols)


def _sort_key_ok(rows: List[List[Any]], cols: List[str], order: List[str], reverse: List[str]) -> Optional[str]:
    """check that consecutive rows are ordered by `order` with `reverse` reversals (nulls excluded by caller)"""
    idx = [cols.index(c) for c in order]
    rev = [c in reverse for c in order]
    for a, b in zip(rows, rows[1:]):
        for j, rv in zip(idx, rev):
            x, y = a[j], b[j]
            if cells_equal(x, y):
                continue
            lt = x < y
            if lt == rv:
                return f"rows {a} then {b} violate order by {order} reverse {reverse}"
            break
    return None


def _ref_sort(rows, cols, order, reverse):
    import functools

    idx = [cols.index(c) for c in order]
    rev = [c in reverse for c in order]

    def cmp(a, b):
        for j, rv in zip(idx, rev):
            x, y = a[j], b[j]
            if cells_equal(x, y):
                continue
            r = -1 if x < y else 1
            return -r if rv else r
        return 0

    return sorted(rows, key=functools.cmp_to_key(cmp))


def _total(rows, cols, part, order) -> Optional[str]:
    """None when the (part+order) tuples are unique and null-free, else the reason"""
    idx = [cols.index(c) for c in part + order if c in cols]
    if len(idx) != len(part + order):
        return "columns-missing"
    seen = []
    for r in rows:
        t = [r[j] for j in idx]
        if any(v is None for v in t):
            return "null-in-order-columns"
        seen.append(json.dumps(t))
    seen.sort()
    for a, b in zip(seen, seen[1:]):
        if a == b:
            return "ties"
    return None


def _run(scn, log: EventLog, stats: Stats):
    import warnings

    warnings.simplefilter("ignore")
    from sim.core import fresh_models

    fresh_models()
    descrs = descriptions(scn)
    pipe = scn["pipe"]
    base_env = Env(scn, identity_schedule(scn["tables"]), scn["knobs"])
    envs = [Env(scn, s, scn["knobs"]) for s in scn["schedules"]]
    n_rows = sum(W.table_nrows(t) for t in scn["tables"].values())
    try:
        alive = {b: True for b in BACKENDS}
        prev_base: Dict[str, Any] = {}
        for upto in range(1, len(pipe["steps"]) + 1):
            st = pipe["steps"][upto - 1]
            try:
                ops = W.build_pipeline(pipe, descrs, upto=upto)
            except Exception as ex:  # rejected by the builder: C26's business; stop here
                stats.probe("step-rejected-by-builder")
                log.emit("sim", "builder-reject", {"upto": upto, "exc": type(ex).__name__})
                break
            # totality of the ordering this step relies on, judged per backend on that backend's own input to the
            # step (backends may legitimately disagree on values - that is C01/C03/C16 - and then on totality)
            need = W.step_needs_total_order(st)
            order_ok: Dict[str, bool] = {}
            if need is not None or st["t"] == "order_rows":
                for b in BACKENDS:
                    if not alive[b]:
                        continue
                    if upto == 1:
                        try:
                            inp = ordered_rows(evaluate(descrs[pipe["src"]], base_env, b))
                        except Exception:
                            inp = None
                    else:
                        inp = prev_base.get(b)
                    if inp is None:
                        alive[b] = False
                        stats.probe("totality-unknown:" + b)
                        continue
                    icol, irows = inp
                    if need is not None:
                        why = _total(irows, icol, need[0], need[1])
                        if why is not None:
                            alive[b] = False
                            stats.probe("not-total:" + why)
                            continue
                        order_ok[b] = True
                    else:
                        why = _total(irows, icol, [], [c for c in st["cols"]])
                        order_ok[b] = why is None or why == "ties"
                if not any(alive.values()):
                    break
            for b in BACKENDS:
                if not alive[b]:
                    continue
                try:
                    base = evaluate(ops, base_env, b)
                except Exception as ex:
                    alive[b] = False
                    stats.probe("baseline-unsupported:" + b)
                    log.emit(b, "baseline-raises", {"upto": upto, "exc": type(ex).__name__})
                    continue
                if getattr(base, "shape", (0,))[0] > 8000:
                    # safety net (the generator bounds sizes already): a blown-up intermediate makes the run slow, not wrong
                    stats.probe("intermediate-too-large-scenario-stopped")
                    alive = {k_: False for k_ in alive}
                    break
                bcols, brows = ordered_rows(base)
                bcanon = canon_table(base)
                log.emit(b, "baseline", {"upto": upto, "canon": bcanon})
                stats.state({"step": st["t"] + _flavour(st), "canon": bcanon})
                if n_rows >= 2:
                    stats.nontrivial = True
                results = [("identity", bcols, brows)]
                for si, env in enumerate(envs):
                    try:
                        res = evaluate(ops, env, b)
                    except Exception as ex:
                        raise Violation((PROP, b, st["t"] + _flavour(st), "raises-under-schedule"),
                                        f"prefix {upto}: baseline answered, schedule {si} raised {type(ex).__name__}: "
                                        f"{str(ex)[:300]}", upto - 1)
                    rc = canon_table(res)
                    log.emit(b, "sched", {"upto": upto, "s": si})
                    if not tables_equal(rc, bcanon):
                        raise Violation((PROP, b, st["t"] + _flavour(st), "result-depends-on-schedule"),
                                        f"prefix {upto} ({W.describe_pipeline(pipe)[:upto]}): schedule {si}: "
                                        + describe_diff(rc, bcanon), upto - 1)
                    c2, r2 = ordered_rows(res)
                    results.append((f"schedule{si}", c2, r2))
                    stats.probe("schedule-checked:" + b)
                # oracle 2
                if st["t"] == "order_rows" and order_ok.get(b) and (upto == 1 or b in prev_base):
                    pcols, prows = prev_base[b] if upto > 1 else ordered_rows(evaluate(descrs[pipe["src"]], base_env, b))
                    for tag, c2, r2 in results:
                        _check_order(st, pcols, prows, c2, r2, b, tag, upto, stats)
                prev_base[b] = (bcols, brows)
            if st["t"] == "extend" and st.get("order_by"):
                stats.probe("ordered-window-checked")
            if st["t"] == "order_rows" and st.get("limit") is not None and any(order_ok.values()):
                stats.probe("limit-checked")
            if not any(alive.values()):
                break
    finally:
        base_env.close()
        for e in envs:
            e.close()
    stats.ops_trigrams([s["t"] + _flavour(s) for s in pipe["steps"]])


def canon_free_rows(df):
    return ordered_rows(df)


def _flavour(st) -> str:
    if st["t"] == "extend":
        if st.get("order_by"):
            return ":ordered-window"
        if st.get("partition_by"):
            return ":window"
        return ""
    if st["t"] == "order_rows":
        return ":limit" if st.get("limit") is not None else ""
    if st["t"] == "natural_join":
        return ":" + st["jointype"]
    return ""


def _check_order(st, pcols, prows, cols, rows, backend, tag, upto, stats):
    order, rev, limit = list(st["cols"]), list(st.get("reverse") or []), st.get("limit")
    if any(c not in cols for c in order) or sorted(cols) != sorted(pcols):
        return
    # nulls in the order columns: no convention is stated; skip
    oi = [cols.index(c) for c in order]
    if any(r[j] is None for r in rows for j in oi):
        return
    pi = [pcols.index(c) for c in order]
    if any(r[j] is None for r in prows for j in pi):
        return
    try:
        bad = _sort_key_ok(rows, cols, order, rev)
        ref_all = _ref_sort([[r[pcols.index(c)] for c in cols] for r in prows], cols, order, rev)
    except TypeError:
        # an order column holding values of several types (numbers and strings) has no defined order: not judged
        stats.probe("order-column-of-mixed-types-not-judged")
        return
    if bad is not None:
        raise Violation((PROP, backend, "order_rows" + (":limit" if limit is not None else ""), "not-sorted"),
                        f"prefix {upto} under {tag}: {bad}", upto - 1)
    # multiset: returned rows must come from the step's input
    prows_c = [[r[pcols.index(c)] for c in cols] for r in prows]
    pool = [json.dumps(r) for r in prows_c]
    got = [json.dumps(r) for r in rows]
    pool_sorted = sorted(pool)
    if limit is None:
        if sorted(got) != pool_sorted:
            raise Violation((PROP, backend, "order_rows", "rows-changed"),
                            f"prefix {upto} under {tag}: order_rows changed the row multiset", upto - 1)
    else:
        exp_n = min(int(limit), len(prows_c))
        if len(rows) != exp_n:
            raise Violation((PROP, backend, "order_rows:limit", "wrong-row-count"),
                            f"prefix {upto} under {tag}: {len(rows)} rows, expected {exp_n}", upto - 1)
        ref = ref_all[:exp_n]
        for a, b in zip(rows, ref):
            if any(not cells_equal(x, y) for x, y in zip(a, b)):
                raise Violation((PROP, backend, "order_rows:limit", "not-the-first-rows"),
                                f"prefix {upto} under {tag}: got {rows} expected first {exp_n} of order "
                                f"{order} reverse {rev}: {ref}", upto - 1)
    stats.probe("order-oracle:" + backend)


def execute(scn: Dict[str, Any]) -> Dict[str, Any]:
    log, stats = EventLog(), Stats()
    try:
        _run(scn, log, stats)
    except Violation as v:
        return result_violation(v, log, stats)
    return result_ok(log, stats)


# ---------------------------------------------------------------- minimisation hooks ------------------
LIST_FIELDS = ["schedules"]


def truncate(scn, step):
    scn["pipe"]["steps"] = scn["pipe"]["steps"][: step + 1]
    return scn


def reductions(scn):
    steps = scn["pipe"]["steps"]
    # drop a pipeline step (not the last one: the last one is where the violation is)
    for i in range(len(steps) - 1):
        c = _copy.deepcopy(scn)
        del c["pipe"]["steps"][i]
        yield c
    # simplify the right side of joins / concats
    for i, st in enumerate(steps):
        if "b" in st and st["b"]["steps"]:
            for k in range(len(st["b"]["steps"])):
                c = _copy.deepcopy(scn)
                del c["pipe"]["steps"][i]["b"]["steps"][k]
                yield c
        if st["t"] in ("extend", "project") and len(st["ops"]) > 1:
            for k in sorted(st["ops"]):
                c = _copy.deepcopy(scn)
                del c["pipe"]["steps"][i]["ops"][k]
                yield c
    # drop unused tables
    used = W.pipeline_tables(scn["pipe"])
    for n in sorted(scn["tables"]):
        if n not in used:
            c = _copy.deepcopy(scn)
            del c["tables"][n]
            for s in c["schedules"]:
                s["perm"].pop(n, None)
                s["index"].pop(n, None)
                s["db"]["load_order"] = [x for x in s["db"]["load_order"] if x != n]
                s["db"]["indexes"] = [x for x in s["db"]["indexes"] if x[0] != n]
            yield c
    # drop table rows
    for n in sorted(scn["tables"]):
        t = scn["tables"][n]
        nr = W.table_nrows(t)
        for i in range(nr):
            c = _copy.deepcopy(scn)
            for col in c["tables"][n]["cols"]:
                del col["values"][i]
            for s in c["schedules"]:
                p = s["perm"][n]
                s["perm"][n] = [(q if q < i else q - 1) for q in p if q != i]
                lab = s["index"][n].get("labels")
                if lab is not None:
                    s["index"][n]["labels"] = [(q if q < nr - 1 else 0) for q in lab][: nr - 1] if lab else lab
            yield c
    # drop table columns that the pipeline does not mention
    text = json.dumps(scn["pipe"])
    for n in sorted(scn["tables"]):
        for k, col in enumerate(scn["tables"][n]["cols"]):
            if f'"{col["name"]}"' not in text and f'{col["name"]}' not in text and len(scn["tables"][n]["cols"]) > 1:
                c = _copy.deepcopy(scn)
                del c["tables"][n]["cols"][k]
                for s in c["schedules"]:
                    s["db"]["indexes"] = [x for x in s["db"]["indexes"] if not (x[0] == n and col["name"] in x[1])]
                yield c
    # simplify schedules: index -> default, permutation -> identity, db knobs off
    for si, s in enumerate(scn["schedules"]):
        for n in sorted(s["index"]):
            if s["index"][n]["kind"] != "default":
                c = _copy.deepcopy(scn)
                c["schedules"][si]["index"][n] = {"kind": "default"}
                yield c
            ident = list(range(len(s["perm"][n])))
            if s["perm"][n] != ident:
                c = _copy.deepcopy(scn)
                c["schedules"][si]["perm"][n] = ident
                yield c
        if s["db"]["indexes"]:
            c = _copy.deepcopy(scn)
            c["schedules"][si]["db"]["indexes"] = []
            yield c
        if s["db"]["reverse_unordered"]:
            c = _copy.deepcopy(scn)
            c["schedules"][si]["db"]["reverse_unordered"] = False
            yield c


def sample_view(scn):
    s0 = scn["schedules"][0] if scn["schedules"] else {}
    return {"seed": scn["seed"], "tables": {n: {"rows": W.table_nrows(t), "cols": [c["name"] for c in t["cols"]]}
                                            for n, t in scn["tables"].items()},
            "pipeline": W.describe_pipeline(scn["pipe"]), "n_schedules": len(scn["schedules"]),
            "schedule0": {"perm": s0.get("perm"), "index": {n: v["kind"] for n, v in s0.get("index", {}).items()},
                          "db": s0.get("db")}, "knobs": scn["knobs"]}


# ---------------------------------------------------------------- check metadata ----------------------
LEVEL = "exploration"
LOG_HASHSEED_INDEPENDENT = False
TIERS = {
    "quick": {"runs": 1600, "gen": {"max_steps": 7, "schedules": 3}, "soft_deadline_s": 200, "hard_timeout_s": 600,
              "n_echo": 8, "minimise_budget_s": 60},
    "thorough": {"runs": 24000, "gen": {"max_steps": 7, "schedules": 8}, "soft_deadline_s": 1700, "hard_timeout_s": 2700,
                 "n_echo": 32, "minimise_budget_s": 120},
}
RULE = ("one evaluation = one seeded scenario: 1-3 tables of 0-12 rows (unique id, group columns, nullable dyadic "
        "float and int values, strings), one pipeline of 1-7 steps (row-wise / windowed / ordered-window extend, project, "
        "select_rows, select/drop/rename/map columns, order_rows with and without limit, natural_join of every type, "
        "concat_rows) and K seeded schedules (K=3 quick, 8 thorough): per table a row permutation and a Pandas index "
        "labelling (default, offset, shuffled, strings, datetime, duplicate labels, named, MultiIndex), SQLite load "
        "order + reverse_unordered_selects + automatic_index + secondary indexes (Polars eager/lazy is a per-scenario knob). Every pipeline "
        "prefix is evaluated on Pandas, Polars and SQLite under the identity schedule and under each schedule. "
        "distinct = distinct scenario digest; non-trivial = inputs hold >= 2 rows and at least one backend answered.")
EXPECTED_PROBES = ["schedule-checked:pandas", "schedule-checked:polars", "schedule-checked:sqlite",
                   "ordered-window-checked", "limit-checked", "order-oracle:pandas", "order-oracle:polars",
                   "order-oracle:sqlite"]
COMPONENTS = {"real": ["data_algebra builders, Pandas executor, Polars executor, SQLite SQL generation",
                       "pandas", "polars (POLARS_MAX_THREADS=1)", "sqlite3 in-memory engine"],
              "model": ["identity-schedule result of the same backend (invariance oracle)", "reference sort (order oracle)"],
              "stub": [], "not_run": ["PostgreSQL, MySQL, BigQuery, Spark"]}
ASSUMPTIONS = [
    "seeded sampling of pipelines, inputs and schedules",
    "a backend that raises under the identity schedule is skipped from that prefix on (operator support is not this "
    "property); one that answers under the baseline must answer under every schedule",
    "orderings that are not total within each partition (ties, nulls in order columns) are outside the property: the "
    "scenario stops at such a step",
    "aggregates are exact in binary floating point by construction (ints and dyadic floats; no std/var), so "
    "permutation cannot produce rounding noise",
    "Polars' own thread pool is pinned to one thread; it cannot be scheduled",
]
