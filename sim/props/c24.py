"""
C24 - OrderedSet is a set that remembers first insertion order.

Simulation: seeded operation histories over three live OrderedSet slots, checked after every operation
against a reference (a duplicate-free list = plain-set membership + first-insertion order).
Fault kinds: F5 iter-raise (an iterable argument raises SimAbort after k items) and F5 elem-raise
(an element whose __hash__ raises while armed).  Relaxed oracle after a fired fault: the touched slot
must equal the pre-state with some prefix (0..k) of the delivered items applied; nothing else may change.
"""

import copy as _copy
import json
from typing import Any, Dict, List, Optional

from sim.core import EventLog, SimAbort, Stats, Violation, result_ok, result_violation, stream

PROP = "C24"
NSLOTS = 3


# ---------------------------------------------------------------- elements ----------------------------
class Evil:
    """Hashable element whose __hash__ raises SimAbort while its k is armed."""

    armed: tuple = ()
    fired = 0

    def __init__(self, k: int):
        self.k = k

    def __hash__(self):
        if self.k in Evil.armed:
            Evil.fired += 1
            raise SimAbort(f"hash of Evil({self.k})")
        return 1000 + self.k

    def __eq__(self, other):
        return isinstance(other, Evil) and other.k == self.k

    def __repr__(self):
        return f"Evil({self.k})"


POOL_JSON = (
    [{"t": "int", "v": i} for i in range(6)]
    + [{"t": "float", "v": 1.0}, {"t": "float", "v": 2.0}, {"t": "float", "v": 2.5}, {"t": "bool", "v": True}]
    + [{"t": "str", "v": s} for s in ("a", "b", "c")]
    + [{"t": "tuple", "v": [1, 2]}, {"t": "tuple", "v": [0]}]
    + [{"t": "evil", "v": 0}, {"t": "evil", "v": 1}]
    # unusual but legal elements: None, empty things, NaN (one shared object), numbers equal across types, near-twin strings
    + [{"t": "none", "v": 0}, {"t": "str", "v": ""}, {"t": "tuple", "v": []}, {"t": "nan", "v": 0}, {"t": "nan", "v": 1}, {"t": "int", "v": 0},
       {"t": "bool", "v": False}, {"t": "float", "v": 0.0}, {"t": "str", "v": "A"}, {"t": "str", "v": "a "},
       {"t": "bytes", "v": "a"}, {"t": "decimal", "v": 1}, {"t": "fraction", "v": 2}, {"t": "frozenset", "v": [1, 2]},
       {"t": "str", "v": "x" * 300 + "1"}, {"t": "str", "v": "x" * 300 + "2"}]
    # a long tail of plain ints, used only by "big" runs: sets larger than any small-size fast path
    + [{"t": "int", "v": i} for i in range(6, 150)]
)
HUGE_INTS = [{"t": "int", "v": i} for i in range(150, 1500)]  # only "huge" runs draw from these
NAN2 = float("nan")  # a second, distinct NaN object: a plain set keeps both
NAN = float("nan")  # plain sets treat the *same* NaN object as one element (identity is tried before ==)
N_SMALL_POOL = 17 + 16


def dec_elem(j: Dict[str, Any]):
    t, v = j["t"], j["v"]
    if t == "int":
        return int(v)
    if t == "float":
        return float(v)
    if t == "bool":
        return bool(v)
    if t == "str":
        return str(v)
    if t == "tuple":
        return tuple(int(x) for x in v)
    if t == "evil":
        return Evil(int(v))
    if t == "none":
        return None
    if t == "nan":
        return NAN if int(v) == 0 else NAN2
    if t == "bytes":
        return str(v).encode("ascii")
    if t == "decimal":
        import decimal

        return decimal.Decimal(int(v))
    if t == "fraction":
        import fractions

        return fractions.Fraction(int(v))
    if t == "frozenset":
        return frozenset(int(x) for x in v)
    raise ValueError(t)


def elem_key(e) -> List[Any]:
    """canonical, hash-free description of an element for logs"""
    if isinstance(e, Evil):
        return ["evil", e.k]
    if isinstance(e, tuple):
        return ["tuple", [int(x) for x in e]]
    if e is None:
        return ["none"]
    if isinstance(e, frozenset):
        return ["frozenset", sorted(int(x) for x in e)]
    if isinstance(e, bytes):
        return ["bytes", e.decode("ascii")]
    if isinstance(e, (int, str, bool)):
        return [type(e).__name__, e]
    return [type(e).__name__, repr(e)]


# ---------------------------------------------------------------- iterables ---------------------------
class FaultyIterable:
    """Re-iterable collection that raises SimAbort after fail_after items (None = never)."""

    def __init__(self, items, fail_after: Optional[int]):
        self.items = list(items)
        self.fail_after = fail_after
        self.fired = 0
        self.delivered = 0

    def __iter__(self):
        n = 0
        for x in self.items:
            if self.fail_after is not None and n >= self.fail_after:
                self.fired += 1
                raise SimAbort("iterable died")
            n += 1
            self.delivered = max(self.delivered, n)
            yield x
        if self.fail_after is not None and n >= self.fail_after:
            self.fired += 1
            raise SimAbort("iterable died at end")


def build_iter(j: Dict[str, Any], slots):
    """-> (python object to pass, list of items it will deliver in order, FaultyIterable or None)"""
    kind = j["kind"]
    if kind == "slot":
        s = slots[j["slot"]]
        return s, None, None
    items = [dec_elem(e) for e in j["items"]]
    fa = j.get("fail_after")
    if kind == "list":
        if fa is None:
            return items, items, None
        f = FaultyIterable(items, fa)
        return f, items, f
    if kind == "tuple":
        return tuple(items), items, None
    if kind == "gen":
        f = FaultyIterable(items, fa)
        return iter(f), items, f
    if kind == "set":
        # only unsalted-hash elements are generated for this kind, so iteration order is process-independent
        st = set(items)
        return st, list(st), None
    if kind == "frozenset":
        st = frozenset(items)
        return st, list(st), None
    if kind == "oset":
        from data_algebra.OrderedSet import OrderedSet

        return OrderedSet(items), _dedupe(items), None
    if kind in ("dict", "dictkeys"):
        d = {}
        for x in items:
            d.setdefault(x, len(d))
        return (d if kind == "dict" else d.keys()), list(d), None
    raise ValueError(kind)


# ---------------------------------------------------------------- reference model ---------------------
def _eq(x, y) -> bool:
    """element identity as Python sets and dicts see it: the same object, or =="""
    return x is y or x == y


_PLAIN = (int, float, str, bool, bytes, type(None))
_index_cache: Dict[int, Any] = {}


def _index(lst):
    """for long lists: a hash index over the plain (hash-safe) elements + the rest as a list; set membership uses the same
    identity-or-== rule as _eq, so the answers are those of the linear scan"""
    key = id(lst)
    hit = _index_cache.get(key)
    if hit is not None and hit[0] is lst and hit[3] == len(lst):
        return hit[1], hit[2]
    plain, rest = set(), []
    for x in lst:
        if type(x) in _PLAIN:
            plain.add(x)
        else:
            rest.append(x)
    if len(_index_cache) > 64:
        _index_cache.clear()
    _index_cache[key] = (lst, plain, rest, len(lst))
    return plain, rest


def _in(e, lst) -> bool:
    if len(lst) > 48 and type(e) in _PLAIN:
        plain, rest = _index(lst)
        if e in plain:
            return True
        lst = rest
    for x in lst:
        if _eq(x, e):
            return True
    return False


def _dedupe(items) -> List[Any]:
    out: List[Any] = []
    seen_plain = set()
    for x in items:
        if type(x) in _PLAIN:
            if x in seen_plain:
                continue
            if any(_eq(x, y) for y in out if type(y) not in _PLAIN):
                continue
            seen_plain.add(x)
            out.append(x)
        elif not any(_eq(x, y) for y in out):
            out.append(x)
    return out


def m_add(st, e):
    return st if _in(e, st) else st + [e]


def m_discard(st, e):
    return [x for x in st if not _eq(x, e)]


def m_update(st, items):
    for e in items:
        st = m_add(st, e)
    return st


def m_diff(st, items):
    return [x for x in st if not _in(x, items)]


def m_inter(st, items):
    return [x for x in st if _in(x, items)]


def m_xor_members(st, items):
    items = _dedupe(items)
    return [x for x in st if not _in(x, items)] + [x for x in items if not _in(x, st)]


def same_seq(a, b) -> bool:
    if len(a) != len(b):
        return False
    for x, y in zip(a, b):
        if not _eq(x, y):
            return False
    return True


def same_members(a, b) -> bool:
    return len(a) == len(b) and all(_in(x, b) for x in a) and all(_in(x, a) for x in b)


# ---------------------------------------------------------------- generation --------------------------
MUTATORS = ["add", "discard", "remove", "pop", "clear", "update", "ior", "iand", "isub", "ixor",
            "difference_update", "intersection_update", "symmetric_difference_update"]
MAKERS = ["new", "copy", "copy2", "deepcopy", "pickle", "union", "or", "and", "sub", "xor", "ror", "difference", "intersection",
          "symmetric_difference", "ordered_union", "ordered_intersect", "ordered_diff"]
OBSERVERS = ["le", "lt", "ge", "gt", "eq", "ne", "isdisjoint", "issubset", "issuperset", "contains", "len", "repr"]
PREFIX_SAFE = ("new", "update", "ior", "isub", "difference_update", "union", "ordered_union",
               "ordered_intersect", "ordered_diff", "iand", "ixor", "intersection_update",
               "symmetric_difference_update", "or", "and", "sub", "xor", "difference", "intersection",
               "symmetric_difference")
EVIL_ARM_OK = ("add", "discard", "remove", "contains", "update", "ior", "new", "union", "ordered_union")


def _gen_iter(r, pool_idx, allow_fault: bool, kinds=None, allow_slot=True) -> Dict[str, Any]:
    kinds = kinds or ["list", "list", "tuple", "gen", "set", "frozenset", "oset", "slot", "dict", "dictkeys"]
    kind = r.choice(kinds)
    if kind == "slot" and not allow_slot:
        kind = "list"
    if kind == "slot":
        return {"kind": "slot", "slot": r.randrange(NSLOTS)}
    n = r.choice([0, 1, 1, 2, 2, 3, 3, 4, 5, 7])
    if len(pool_idx) > 40 and r.random() < 0.5:
        n = r.choice([20, 45, 90])
    idx = [r.choice(pool_idx) for _ in range(n)]
    if r.random() < 0.3 and idx:
        idx.append(r.choice(idx))  # explicit repeats
        r.shuffle(idx)
    items = [POOL_JSON[i] for i in idx]
    if kind in ("set", "frozenset"):
        items = [e for e in items if e["t"] not in ("str", "bytes", "none", "frozenset", "decimal", "fraction", "nan")]
    if kind in ("dict", "dictkeys"):
        # a keys view is a Set: Set-mixin operators may route through plain sets, whose order for str is hash-seed salted
        items = [e for e in items if e["t"] not in ("evil", "str", "bytes", "none", "frozenset", "decimal", "fraction", "nan")]
    j: Dict[str, Any] = {"kind": kind, "items": items}
    if allow_fault and kind in ("list", "gen"):
        j["fail_after"] = r.randrange(len(items) + 1)
    return j


def generate(run_seed: int, cfg: Dict[str, Any]) -> Dict[str, Any]:
    r = stream(run_seed, "ops")
    rf = stream(run_seed, "faults")
    rk = stream(run_seed, "knobs")
    faulty = bool(cfg.get("faulty", run_seed % 2 == 1))
    n_ops = rk.randint(cfg.get("min_ops", 5), cfg.get("max_ops", 40))
    # swarm: per-run subset of the pool and per-run op mix
    psize = rk.choice([3, 5, 8, N_SMALL_POOL])
    pool_idx = sorted(rk.sample(range(N_SMALL_POOL), psize))
    big = rk.random() < 0.08
    if big:
        pool_idx = pool_idx + list(range(N_SMALL_POOL, len(POOL_JSON)))
    huge = rk.random() < float(cfg.get("huge_rate", 0.002))
    if huge:
        n_ops = min(n_ops, 14)
    w_mut, w_make, w_obs = rk.choice([(6, 3, 1), (3, 6, 1), (4, 4, 2), (8, 1, 1)])
    fault_rate = rk.choice([0.05, 0.1, 0.2]) if faulty else 0.0
    rs = stream(run_seed, "schedule")
    check_rate = rk.choice([1.0, 0.5, 0.2])
    ops: List[Dict[str, Any]] = []
    if huge:
        # a set of well over a thousand elements (beyond any size-triggered representation), some early ones removed
        # and a new one added, then the usual random operations and the helpers against small arguments
        items = POOL_JSON[N_SMALL_POOL:] + HUGE_INTS[: rk.choice([900, 1200])]
        ops.append({"op": "new", "s": 0, "dst": 0, "it": {"kind": "list", "items": items}, "check": False})
        for e_ in rk.sample(items[:50], 3):
            ops.append({"op": "discard", "s": 0, "e": e_, "check": False})
        ops.append({"op": "add", "s": 0, "e": {"t": "int", "v": 5000}, "check": True})
        for hname in ("ordered_intersect", "ordered_diff", "ordered_union"):
            small = [{"t": "int", "v": 5000}, items[-1], items[60], {"t": "int", "v": 9999}]
            ops.append({"op": hname, "s": 0, "a": {"kind": "slot", "slot": 0}, "b": {"kind": "list", "items": small},
                        "dst": 1, "check": True})
    for _ in range(n_ops):
        cls = r.choices(["mut", "make", "obs"], weights=[w_mut, w_make, w_obs])[0]
        name = r.choice({"mut": MUTATORS, "make": MAKERS, "obs": OBSERVERS}[cls])
        op: Dict[str, Any] = {"op": name, "s": r.randrange(NSLOTS)}
        want_fault = rf.random() < fault_rate
        use_iter_fault = want_fault and name in PREFIX_SAFE and rf.random() < 0.7
        if name in ("add", "discard", "remove", "contains"):
            op["e"] = POOL_JSON[r.choice(pool_idx)]
        elif name in ("pop", "clear", "len", "repr"):
            pass
        elif name == "new":
            op["dst"] = r.randrange(NSLOTS)
            op["it"] = None if r.random() < 0.1 else _gen_iter(r, pool_idx, use_iter_fault, allow_slot=True)
        elif name in ("copy", "copy2", "deepcopy", "pickle"):
            op["dst"] = r.randrange(NSLOTS)
        elif name in ("update", "union"):
            k = r.choice([0, 1, 1, 1, 2, 3])
            op["its"] = [_gen_iter(r, pool_idx, use_iter_fault and i == k - 1) for i in range(k)]
            if name == "union":
                op["dst"] = r.randrange(NSLOTS)
        elif name in ("ordered_union", "ordered_intersect", "ordered_diff"):
            fa = rf.randrange(2) if use_iter_fault else -1
            op["a"] = _gen_iter(r, pool_idx, fa == 0)
            op["b"] = _gen_iter(r, pool_idx, fa == 1)
            op["dst"] = r.randrange(NSLOTS)
        elif name in ("le", "lt", "ge", "gt", "eq", "ne"):
            op["it"] = _gen_iter(r, pool_idx, False, kinds=["set", "frozenset", "oset", "slot"])
        elif name in ("isdisjoint", "issubset", "issuperset"):
            op["it"] = _gen_iter(r, pool_idx, False, kinds=["list", "tuple", "set", "frozenset", "oset", "slot"])
        elif name == "ror":
            op["it"] = _gen_iter(r, pool_idx, False, kinds=["list", "tuple"])
            op["dst"] = r.randrange(NSLOTS)
        else:  # in-place and binary operators with one iterable
            op["it"] = _gen_iter(r, pool_idx, use_iter_fault)
            if name in MAKERS:
                op["dst"] = r.randrange(NSLOTS)
        if want_fault and not use_iter_fault and name in EVIL_ARM_OK:
            op["arm"] = [0, 1] if rf.random() < 0.3 else [rf.randrange(2)]
        # observation is itself an operation on the container (iteration): do not iterate after every step, or state
        # that only goes stale between two iterations can never be seen. In-place xor needs its observation because
        # the order of the elements it adds is adopted from what is observed.
        op["check"] = bool(rs.random() < check_rate or name in ("ixor", "symmetric_difference_update"))
        ops.append(op)
    if ops:
        ops[-1]["check"] = True
    return {"prop": PROP, "seed": run_seed, "faulty": faulty, "ops": ops}


# ---------------------------------------------------------------- execution ---------------------------
def _snapshot(oset) -> List[Any]:
    return list(oset)


def _check_slot(i, oset, model, opname, step, strict_order=True):
    got = _snapshot(oset)
    if not same_members(got, model):
        raise Violation((PROP, opname, "membership"),
                        f"slot {i}: got {got!r} expected members {model!r}", step)
    if len(got) != len(_dedupe(got)):
        raise Violation((PROP, opname, "duplicate"), f"slot {i}: got {got!r}", step)
    if strict_order and not same_seq(got, model):
        raise Violation((PROP, opname, "order"), f"slot {i}: got {got!r} expected order {model!r}", step)
    if len(oset) != len(model):
        raise Violation((PROP, opname, "len"), f"slot {i}: len {len(oset)} vs {len(model)}", step)


def _run(scn, log: EventLog, stats: Stats):
    from data_algebra.OrderedSet import OrderedSet, ordered_diff, ordered_intersect, ordered_union

    used = []
    for op_ in scn["ops"]:
        for key_ in ("it", "a", "b"):
            if isinstance(op_.get(key_), dict):
                used.extend(op_[key_].get("items", []))
        for j_ in op_.get("its", []) or []:
            used.extend(j_.get("items", []))
        if "e" in op_:
            used.append(op_["e"])
    seen_keys = []
    pool = []
    for e_ in POOL_JSON[:N_SMALL_POOL] + used:
        k_ = (e_["t"], json.dumps(e_["v"]))
        if k_ not in seen_keys:
            seen_keys.append(k_)
            pool.append(dec_elem(e_))
    slots: List[Any] = [OrderedSet() for _ in range(NSLOTS)]
    model: List[List[Any]] = [[] for _ in range(NSLOTS)]
    kinds: List[str] = []
    Evil.armed = ()
    for step, op in enumerate(scn["ops"]):
        name = op["op"]
        kinds.append(name)
        si = op["s"]
        s = slots[si]
        pre = [list(m) for m in model]
        log.emit("client", name, {k: v for k, v in op.items() if k != "op"})
        # ---- build arguments
        fis: List[FaultyIterable] = []
        delivered_lists: List[Optional[List[Any]]] = []

        def mk(j):
            obj, items, f = build_iter(j, slots)
            if f is not None:
                fis.append(f)
            if items is None:  # a slot: items = its model (order) at call time
                items = list(pre[j["slot"]])
            # what a dying iterable can have delivered before it died
            delivered_lists.append(items if f is None or f.fail_after is None else items[: f.fail_after])
            return obj, items

        res = None
        exc: Optional[BaseException] = None
        expect_keyerror = False
        new_dst: Optional[List[Any]] = None  # expected model for dst
        dst_strict = True
        obs_expected = None
        obs_got = None
        try:
            e = dec_elem(op["e"]) if "e" in op else None
            Evil.fired = 0
            if name == "new":
                if op["it"] is None:
                    arg, items = None, []
                else:
                    arg, items = mk(op["it"])
                new_dst = _dedupe(items)
                Evil.armed = tuple(op.get("arm", ()))
                res = OrderedSet(arg)
            elif name == "add":
                model[si] = m_add(pre[si], e)
                Evil.armed = tuple(op.get("arm", ()))
                s.add(e)
            elif name == "discard":
                model[si] = m_discard(pre[si], e)
                Evil.armed = tuple(op.get("arm", ()))
                s.discard(e)
            elif name == "remove":
                expect_keyerror = not _in(e, pre[si])
                model[si] = m_discard(pre[si], e)
                Evil.armed = tuple(op.get("arm", ()))
                s.remove(e)
            elif name == "pop":
                expect_keyerror = len(pre[si]) == 0
                got = s.pop()
                if not _in(got, pre[si]):
                    raise Violation((PROP, "pop", "returned-nonmember"), f"{got!r} not in {pre[si]!r}", step)
                model[si] = m_discard(pre[si], got)
                if len(pre[si]) > 1:
                    stats.probe("pop-nonempty")
            elif name == "clear":
                model[si] = []
                s.clear()
            elif name == "update":
                args = [mk(j) for j in op["its"]]
                st = pre[si]
                for _, items in args:
                    st = m_update(st, items)
                model[si] = st
                Evil.armed = tuple(op.get("arm", ()))
                s.update(*[a for a, _ in args])
            elif name in ("ior", "iand", "isub", "ixor", "difference_update", "intersection_update",
                          "symmetric_difference_update"):
                arg, items = mk(op["it"])
                same = arg is s
                if name == "ior":
                    model[si] = m_update(pre[si], items)
                    Evil.armed = tuple(op.get("arm", ()))
                    s |= arg
                elif name in ("iand", "intersection_update"):
                    model[si] = m_inter(pre[si], items)
                    if name == "iand":
                        s &= arg
                    else:
                        s.intersection_update(arg)
                elif name in ("isub", "difference_update"):
                    model[si] = m_diff(pre[si], items)
                    if name == "isub":
                        s -= arg
                    else:
                        s.difference_update(arg)
                else:
                    # order of survivors is first-insertion order; order of newly added ones follows the
                    # argument for a sequence argument
                    model[si] = m_xor_members(pre[si], items)
                    if name == "ixor":
                        s ^= arg
                    else:
                        s.symmetric_difference_update(arg)
                if same:
                    stats.probe("inplace-with-self")
                slots[si] = s  # python rebinds the name to whatever the in-place operator returned
            elif name in ("copy", "copy2", "deepcopy", "pickle"):
                new_dst = list(pre[si])
                if name == "copy":
                    res = s.copy()
                elif name == "copy2":
                    res = _copy.copy(s)
                elif name == "deepcopy":
                    res = _copy.deepcopy(s)
                else:
                    # F7 restart: operator nodes carry OrderedSets and are pickled (tests cache, C12)
                    import pickle

                    res = pickle.loads(pickle.dumps(s))
                    stats.fault("restart")
            elif name == "union":
                args = [mk(j) for j in op["its"]]
                st = pre[si]
                for _, items in args:
                    st = m_update(st, items)
                new_dst = st
                Evil.armed = tuple(op.get("arm", ()))
                res = s.union(*[a for a, _ in args])
            elif name in ("or", "and", "sub", "xor", "ror", "difference", "intersection", "symmetric_difference"):
                arg, items = mk(op["it"])
                dst_strict = False
                if name in ("or", "ror"):
                    new_dst = m_update(pre[si], items)
                    res = (s | arg) if name == "or" else (arg | s)
                elif name in ("and", "intersection"):
                    new_dst = m_inter(pre[si], items)
                    res = (s & arg) if name == "and" else s.intersection(arg)
                elif name in ("sub", "difference"):
                    new_dst = m_diff(pre[si], items)
                    res = (s - arg) if name == "sub" else s.difference(arg)
                else:
                    new_dst = m_xor_members(pre[si], items)
                    res = (s ^ arg) if name == "xor" else s.symmetric_difference(arg)
            elif name in ("ordered_union", "ordered_intersect", "ordered_diff"):
                a, a_items = mk(op["a"])
                b, b_items = mk(op["b"])
                da = _dedupe(a_items)
                if name == "ordered_union":
                    new_dst = m_update(da, b_items)
                    Evil.armed = tuple(op.get("arm", ()))
                    res = ordered_union(a, b)
                elif name == "ordered_intersect":
                    new_dst = m_inter(da, b_items)
                    res = ordered_intersect(a, b)
                else:
                    new_dst = m_diff(da, b_items)
                    res = ordered_diff(a, b)
                stats.probe(name)
            elif name in ("le", "lt", "ge", "gt", "eq", "ne", "isdisjoint", "issubset", "issuperset"):
                arg, items = mk(op["it"])
                items = _dedupe(items)
                sub = all(_in(x, items) for x in pre[si])
                sup = all(_in(x, pre[si]) for x in items)
                if name == "le":
                    obs_expected, obs_got = sub, (s <= arg)
                elif name == "lt":
                    obs_expected, obs_got = (sub and not sup), (s < arg)
                elif name == "ge":
                    obs_expected, obs_got = sup, (s >= arg)
                elif name == "gt":
                    obs_expected, obs_got = (sup and not sub), (s > arg)
                elif name == "eq":
                    obs_expected, obs_got = (sub and sup), (s == arg)
                elif name == "ne":
                    obs_expected, obs_got = not (sub and sup), (s != arg)
                elif name == "issubset":
                    obs_expected, obs_got = sub, s.issubset(arg)
                elif name == "issuperset":
                    obs_expected, obs_got = sup, s.issuperset(arg)
                else:
                    obs_expected, obs_got = (not any(_in(x, items) for x in pre[si])), s.isdisjoint(arg)
            elif name == "contains":
                Evil.armed = tuple(op.get("arm", ()))
                obs_expected, obs_got = _in(e, pre[si]), (e in s)
            elif name == "len":
                obs_expected, obs_got = len(pre[si]), len(s)
            elif name == "repr":
                r_ = repr(s)
                obs_expected, obs_got = True, (isinstance(r_, str) and r_.startswith("OrderedSet("))
            else:
                raise ValueError(name)
        except SimAbort as ex:
            exc = ex
        except KeyError as ex:
            exc = ex
        except Violation:
            Evil.armed = ()
            raise
        except Exception as ex:  # anything else coming out of the container is not a plain-set behaviour
            Evil.armed = ()
            raise Violation((PROP, name, "unexpected-exception", type(ex).__name__), repr(ex)[:300], step)
        finally:
            Evil.armed = ()
        fired = sum(f.fired for f in fis) + Evil.fired
        # ---- classify outcome
        if isinstance(exc, SimAbort):
            if fired == 0:
                raise Violation((PROP, name, "abort-without-fault"), "", step)
            stats.fault("iter-raise" if any(f.fired for f in fis) else "elem-raise")
            log.emit("sim", "fault-fired", {"delivered": [f.delivered for f in fis]})
            # relaxed oracle: pre-state with some prefix of the delivered items applied (slot si only)
            got = _snapshot(s)
            cands = _fault_candidates(name, pre[si], delivered_lists, fis, op)
            ok = None
            for c in cands:
                if same_seq(got, c):
                    ok = c
                    break
            if ok is None:
                raise Violation((PROP, name, "state-after-fault"),
                                f"slot {si}: got {got!r}, pre {pre[si]!r}, acceptable {cands!r}", step)
            if not same_seq(ok, pre[si]):
                stats.probe("fault-left-partial-prefix")
            model[si] = ok
            for k in range(NSLOTS):
                if k != si:
                    model[k] = pre[k]
        elif isinstance(exc, KeyError):
            if not expect_keyerror:
                raise Violation((PROP, name, "unexpected-KeyError"), repr(exc), step)
            model = pre
            stats.probe("keyerror-as-plain-set")
        else:
            if expect_keyerror:
                raise Violation((PROP, name, "missing-KeyError"), f"pre {pre[si]!r} arg {op.get('e')!r}", step)
            if fired:
                # the injected exception was swallowed: result is outside what the property speaks about;
                # keep only the state checks (relaxed) and drop the produced value
                stats.probe("fault-swallowed")
                got = _snapshot(s)
                cands = _fault_candidates(name, pre[si], delivered_lists, fis, op) + [model[si]]
                if not any(same_seq(got, c) for c in cands):
                    raise Violation((PROP, name, "state-after-fault"), f"got {got!r}", step)
                model[si] = got
                res = None
                new_dst = None
            if obs_expected is not None and obs_got != obs_expected:
                raise Violation((PROP, name, "observer"), f"got {obs_got!r} expected {obs_expected!r}; "
                                                          f"self {pre[si]!r} arg {delivered_lists!r}", step)
            if new_dst is not None:
                if not isinstance(res, OrderedSet):
                    raise Violation((PROP, name, "result-type"), type(res).__name__, step)
                di = op["dst"]
                got = _snapshot(res)
                if name in ("deepcopy", "pickle"):
                    # the copy holds new objects: a NaN in it is another NaN (not identical, not ==); compare with NaN ~ NaN
                    # and let the model continue with the copy's own objects, as a pickled plain set would
                    def _eqn(x, y):
                        return _eq(x, y) or (isinstance(x, float) and isinstance(y, float) and x != x and y != y)

                    if len(got) != len(new_dst) or not all(_eqn(x, y) for x, y in zip(got, new_dst)):
                        raise Violation((PROP, name, "order"), f"got {got!r} expected {new_dst!r}", step)
                    new_dst = got
                elif dst_strict:
                    if not same_members(got, new_dst):
                        raise Violation((PROP, name, "membership"), f"got {got!r} expected {new_dst!r}", step)
                    if not same_seq(got, new_dst):
                        raise Violation((PROP, name, "order"), f"got {got!r} expected {new_dst!r}", step)
                else:
                    if not same_members(got, new_dst) or len(got) != len(_dedupe(got)):
                        raise Violation((PROP, name, "membership"), f"got {got!r} expected members {new_dst!r}", step)
                    new_dst = got  # order unspecified by the property for mixin operators: adopt
                slots[di] = res
                model[di] = list(new_dst)
        # ---- invariants over every slot (at the observation points the scenario names)
        if not op.get("check", True):
            if any(not same_seq(model[i], pre[i]) for i in range(NSLOTS)):
                stats.nontrivial = True
            stats.probe("unobserved-step")
            continue
        for i in range(NSLOTS):
            # for in-place xor the order of the newly added elements is only defined for ordered arguments
            strict = True
            if i == si and name in ("ixor", "symmetric_difference_update") and exc is None:
                strict = False
                got = _snapshot(slots[i])
                if same_members(got, model[i]):
                    # survivors must keep their relative order
                    surv = [x for x in got if _in(x, pre[i])]
                    exp_surv = [x for x in pre[i] if _in(x, model[i])]
                    if not same_seq(surv, exp_surv):
                        raise Violation((PROP, name, "order"), f"survivors {surv!r} vs {exp_surv!r}", step)
                    model[i] = got
            _check_slot(i, slots[i], model[i], name, step, strict_order=strict)
        for pe in pool:
            for i in range(NSLOTS):
                if (pe in slots[i]) != _in(pe, model[i]):
                    raise Violation((PROP, name, "contains"), f"{pe!r} in slot {i}", step)
        if any(not same_seq(model[i], pre[i]) for i in range(NSLOTS)):
            stats.nontrivial = True
        stats.state([[elem_key(x) for x in m] for m in model])
        log.emit("sim", "state", [[elem_key(x) for x in m] for m in model])
    stats.ops_trigrams(kinds)


def _fault_candidates(name, pre, delivered_lists, fis, op) -> List[List[Any]]:
    """acceptable states of the touched slot after an operation that died on an injected fault"""
    cands = [list(pre)]
    flat: List[Any] = []
    for items in delivered_lists:
        if items is not None:
            flat.extend(items)
    if name in ("update", "ior"):
        st = list(pre)
        for e in flat:
            st = m_add(st, e)
            cands.append(st)
    elif name in ("isub", "difference_update"):
        st = list(pre)
        for e in flat:
            st = m_discard(st, e)
            cands.append(st)
    # add/discard/remove with an armed element, constructors, helpers, &=, ^=: unchanged only
    return cands


def execute(scn: Dict[str, Any]) -> Dict[str, Any]:
    log, stats = EventLog(), Stats()
    try:
        _run(scn, log, stats)
    except Violation as v:
        return result_violation(v, log, stats)
    return result_ok(log, stats)


# ---------------------------------------------------------------- minimisation hooks ------------------
def reductions(scn: Dict[str, Any]):
    """yield simpler scenarios (generic list ddmin over ops is done by the minimiser)"""
    ops = scn["ops"]
    for i, op in enumerate(ops):
        for key in ("it", "a", "b"):
            j = op.get(key)
            if isinstance(j, dict) and j.get("items"):
                for k in range(len(j["items"])):
                    c = _copy.deepcopy(scn)
                    del c["ops"][i][key]["items"][k]
                    fa = c["ops"][i][key].get("fail_after")
                    if fa is not None:
                        c["ops"][i][key]["fail_after"] = min(fa, len(c["ops"][i][key]["items"]))
                    yield c
        if "its" in op:
            for k in range(len(op["its"])):
                c = _copy.deepcopy(scn)
                del c["ops"][i]["its"][k]
                yield c
        if "arm" in op:
            c = _copy.deepcopy(scn)
            del c["ops"][i]["arm"]
            yield c


LIST_FIELDS = ["ops"]


def sample_view(scn: Dict[str, Any]) -> Any:
    def it(j):
        if j is None:
            return None
        if j["kind"] == "slot":
            return f"slot{j['slot']}"
        s = f"{j['kind']}{[e['v'] if e['t'] != 'evil' else 'Evil%d' % e['v'] for e in j['items']]}"
        if j.get("fail_after") is not None:
            s += f"!dies-after-{j['fail_after']}"
        return s

    out = []
    for op in scn["ops"][:12]:
        d = {"op": op["op"], "s": op["s"]}
        for k in ("it", "a", "b"):
            if k in op:
                d[k] = it(op[k])
        if "its" in op:
            d["its"] = [it(j) for j in op["its"]]
        if "e" in op:
            d["e"] = op["e"]["v"] if op["e"]["t"] != "evil" else f"Evil{op['e']['v']}"
        if "dst" in op:
            d["dst"] = op["dst"]
        if "arm" in op:
            d["arm"] = op["arm"]
        out.append(d)
    return {"seed": scn["seed"], "faulty": scn["faulty"], "n_ops": len(scn["ops"]), "first_ops": out}


def truncate(scn, step):
    scn["ops"] = scn["ops"][: step + 1]
    return scn


# ---------------------------------------------------------------- check metadata ----------------------
LEVEL = "exploration"
LOG_HASHSEED_INDEPENDENT = True
RUN_CPU_LIMIT_S = 60.0  # a history takes about a millisecond
TIERS = {
    "quick": {"runs": 48000, "gen": {"min_ops": 5, "max_ops": 40}, "soft_deadline_s": 120, "hard_timeout_s": 400,
              "n_echo": 16},
    "thorough": {"runs": 1600000, "gen": {"min_ops": 5, "max_ops": 60}, "soft_deadline_s": 1500,
                 "hard_timeout_s": 2400, "n_echo": 64},
}
RULE = ("one evaluation = one seeded history of 5-40 (thorough: 5-60) operations over three live OrderedSet slots "
        "(constructors, add/discard/remove/pop/clear/update, |= &= -= ^= and their named forms, copy, union, the "
        "Set-mixin operators and comparisons, ordered_union/intersect/diff on lists, tuples, generators, sets, "
        "OrderedSets and the slots themselves), checked against a duplicate-free list after every operation; odd "
        "run-seeds additionally inject F5 faults (an iterable that dies after k items, an element whose hash raises). "
        "distinct = distinct scenario digest; non-trivial = at least one operation changed the reference state.")
EXPECTED_PROBES = ["pop-nonempty", "inplace-with-self", "ordered_union", "ordered_intersect", "ordered_diff",
                   "keyerror-as-plain-set", "fault-left-partial-prefix"]
COMPONENTS = {"real": ["data_algebra.OrderedSet (OrderedSet, ordered_union, ordered_intersect, ordered_diff)",
                       "collections.abc.MutableSet mixins of the running CPython"],
              "model": ["duplicate-free list with == membership (plain-set semantics + first-insertion order)"],
              "stub": [], "not_run": []}
ASSUMPTIONS = [
    "seeded sampling of histories, not enumeration; a clean batch is evidence only",
    "order is asserted only where the property fixes it (mutators, copy, union(), the three helpers); for "
    "Set-mixin binary operators only membership is asserted",
    "after an injected fault the touched set may hold the pre-state with any prefix of the delivered items applied",
    "elements are compared with ==; which of two equal objects (1, 1.0, True) is retained is not asserted",
]
