"""
C25 - The evaluation result cache is transparent.

Simulation: a seeded history of store / get / in-place mutation / restart events over a pool of live
caller-owned frames, against a reference map whose keys are *content specs taken at call time* and whose
values are snapshots taken at store time.

Fault kinds: F6 alias-mutate (the client mutates, in place, an object it legitimately owns: a frame it
passed in a data_map, the `res` it stored, a copy a previous get returned) and F7 restart (pickle round
trip of the live cache, which is what tests/conftest.py does between sessions).

Three-valued oracle: two frames are IDENTICAL (same spec), DIFFER (differ in a value, a column name, shape
or row order - the cases the property names) or GREY (equal values under another dtype / index / -0.0 / None
vs NaN - the property is silent).  must-hit needs an identical stored key; must-miss needs every stored key
to differ; grey may hit or miss, but a hit must return a snapshot of a non-differing entry.
"""

import copy as _copy
import math
import pickle
from typing import Any, Dict, List, Optional, Tuple

from sim.core import EventLog, Stats, Violation, result_ok, result_violation, stream

PROP = "C25"
N_POOL = 8

_LONG = "SELECT " + ", ".join(f"c{i}" for i in range(120)) + " FROM d WHERE x > "
SQLS = ["SELECT * FROM d", "SELECT * FROM d ", "select * from d", "SELECT x FROM d", "SELECT * FROM d\n", "SELECT * FROM d -- c",
        _LONG + "1", _LONG + "2"]
MODELS = ["sqlite_a", "sqlite_b", "postgres"]  # sqlite_a and sqlite_b are two instances of the same dialect
NAMES = ["d", "e", "d2"]


# ---------------------------------------------------------------- frame specs -------------------------
BASES = [
    {"cols": [{"name": "x", "dtype": "int64", "values": [1, 2, 3]}, {"name": "g", "dtype": None, "values": ["a", "b", "a"]}],
     "index": None},
    {"cols": [{"name": "x", "dtype": "float64", "values": [1.5, None, 2.0]}], "index": None},
    {"cols": [{"name": "k", "dtype": None, "values": ["p", "q"]}, {"name": "v", "dtype": "int64", "values": [10, 20]},
              {"name": "w", "dtype": "float64", "values": [0.0, -1.0]}], "index": None},
    {"cols": [{"name": "x", "dtype": "int64", "values": []}], "index": None},
    {"cols": [{"name": "x", "dtype": "int64", "values": [1, 1, 2, 2]}, {"name": "y", "dtype": "int64", "values": [5, 6, 7, 8]}],
     "index": None},
    # frames whose grey (dtype-only) variants have the very same content hash: all-zero ints vs floats, 0/1 ints vs bools
    {"cols": [{"name": "z", "dtype": "int64", "values": [0, 0]}], "index": None},
    {"cols": [{"name": "flag", "dtype": "int64", "values": [1, 0, 1]}], "index": None},
]

DIFFER_VARIANTS = ["value", "rename", "droprow", "swaprows", "swapcols", "addcol", "dropcol", "addrow",
                   "tiny", "case", "space", "swapcolvalues", "lastrow", "lastcol", "nfd", "longtail", "bigint", "ulp", "infnan"]
GREY_VARIANTS = ["dtype", "index", "negzero", "boolint", "object"]


def nrows(spec) -> int:
    return len(spec["cols"][0]["values"]) if spec["cols"] else 0


def vary(spec, kind: str, r) -> Dict[str, Any]:
    s = _copy.deepcopy(spec)
    n = nrows(s)
    cols = s["cols"]
    if kind == "value" and n > 0:
        c = r.choice(cols)
        i = r.randrange(n)
        v = c["values"][i]
        if isinstance(v, str):
            c["values"][i] = v + "z"
        elif v is None:
            c["values"][i] = 7.25
        elif isinstance(v, float):
            c["values"][i] = v + 0.5
        else:
            c["values"][i] = v + 1
    elif kind == "tiny" and n > 0:
        fl = [c for c in cols if c["dtype"] == "float64" and any(v is not None for v in c["values"])]
        if fl:
            c = r.choice(fl)
            i = r.choice([k for k, v in enumerate(c["values"]) if v is not None])
            c["values"][i] = c["values"][i] + 2.0 ** -20
    elif kind in ("case", "space") and n > 0:
        st = [c for c in cols if c["dtype"] in (None, "object") and c["values"]]
        if st:
            c = r.choice(st)
            i = r.randrange(n)
            c["values"][i] = c["values"][i].upper() if kind == "case" else c["values"][i] + " "
    elif kind in ("nfd", "longtail") and n > 0:
        st = [c for c in cols if c["dtype"] in (None, "object") and c["values"]]
        if st:
            c = r.choice(st)
            i = r.randrange(n)
            # same glyph, other code points (precomposed vs combining accent) / same first 400 characters, other tail
            for c2 in (c,):
                base_v = c2["values"][i]
                c2["values"][i] = ("\u00e9" + base_v) if kind == "nfd" else (base_v + "y" * 400 + "1")
    elif kind == "bigint" and n > 0:
        ic = [c for c in cols if c["dtype"] == "int64"]
        if ic:
            c = r.choice(ic)
            c["values"][r.randrange(n)] = 2 ** 53 + 1
    elif kind in ("ulp", "infnan") and n > 0:
        fl = [c for c in cols if c["dtype"] == "float64"]
        if fl:
            c = r.choice(fl)
            i = r.randrange(n)
            v = c["values"][i]
            if kind == "ulp":
                c["values"][i] = 7.25 if v is None else math.nextafter(float(v), math.inf)
            else:
                c["values"][i] = "inf" if v is None else None  # None <-> +inf (JSON spec cannot hold inf: encoded as a tag)
    elif kind == "swapcolvalues":
        for dt in ("int64", "float64", None):
            same = [c for c in cols if c["dtype"] == dt]
            if len(same) >= 2 and same[0]["values"] != same[1]["values"]:
                same[0]["values"], same[1]["values"] = same[1]["values"], same[0]["values"]
                break
    elif kind == "lastrow" and n > 0:
        c = cols[-1]
        v = c["values"][-1]
        c["values"][-1] = (v + "z") if isinstance(v, str) else (7.25 if v is None else v + 1)
    elif kind == "lastcol" and n > 0:
        c = cols[-1]
        i = r.randrange(n)
        v = c["values"][i]
        c["values"][i] = (v + "z") if isinstance(v, str) else (7.25 if v is None else v + 1)
    elif kind == "rename":
        c = r.choice(cols)
        c["name"] = c["name"] + "_"
    elif kind == "droprow" and n > 0:
        i = r.randrange(n)
        for c in cols:
            del c["values"][i]
        if s["index"] is not None:
            del s["index"][i]
    elif kind == "addrow" and n > 0:
        i = r.randrange(n)
        for c in cols:
            c["values"].append(c["values"][i])
        if s["index"] is not None:
            s["index"].append(max(s["index"]) + 1)
    elif kind == "swaprows" and n > 1:
        i, j = r.sample(range(n), 2)
        if any(c["values"][i] != c["values"][j] for c in cols):
            for c in cols:
                c["values"][i], c["values"][j] = c["values"][j], c["values"][i]
    elif kind == "swapcols" and len(cols) > 1:
        i, j = r.sample(range(len(cols)), 2)
        cols[i], cols[j] = cols[j], cols[i]
    elif kind == "addcol":
        cols.append({"name": "extra", "dtype": "int64", "values": [0] * n})
    elif kind == "dropcol" and len(cols) > 1:
        del cols[r.randrange(len(cols))]
    elif kind == "dtype":
        for c in cols:
            if c["dtype"] == "int64":
                c["dtype"] = "float64"
                c["values"] = [float(v) for v in c["values"]]
                break
    elif kind == "index" and n > 0:
        s["index"] = [10 + 3 * i for i in range(n)]
    elif kind == "negzero":
        for c in cols:
            if c["dtype"] == "float64" and 0.0 in c["values"]:
                c["values"] = [(-0.0 if v == 0.0 else v) for v in c["values"]]
    elif kind == "boolint":
        for c in cols:
            if c["dtype"] == "int64" and c["values"] and all(v in (0, 1) for v in c["values"]):
                c["dtype"] = "bool"
                c["values"] = [bool(v) for v in c["values"]]
    elif kind == "object":
        for c in cols:
            if c["dtype"] is None:
                c["dtype"] = "object"
                break
    return s


def build_frame(spec):
    import pandas as pd

    data = {}
    for c in spec["cols"]:
        if c["dtype"] is None:
            data[c["name"]] = pd.Series(list(c["values"]), dtype="str") if True else None
        elif c["dtype"] == "object":
            data[c["name"]] = pd.Series(list(c["values"]), dtype="object")
        else:
            vals = [float("nan") if v is None else (float("inf") if v == "inf" else v) for v in c["values"]]
            data[c["name"]] = pd.Series(vals, dtype=c["dtype"])
    df = pd.DataFrame(data)
    if spec["index"] is not None:
        df.index = list(spec["index"])
    return df


# ---- live frame -> content spec (independent of DataFrame.equals / hashing) --------------------------
def _cell(v) -> Any:
    if v is None:
        return ["none"]
    if hasattr(v, "item") and not isinstance(v, (str, bytes)):
        try:
            v = v.item()
        except Exception:
            pass
    if isinstance(v, bool):
        return ["b", v]
    if isinstance(v, int):
        return ["i", v]
    if isinstance(v, float):
        if math.isnan(v):
            return ["nan"]
        return ["f", repr(v)]
    if isinstance(v, str):
        return ["s", v]
    try:
        import pandas as pd

        if v is pd.NA or v is pd.NaT:
            return ["na"]
    except Exception:
        pass
    return ["o", repr(v)]


def frame_spec(df) -> Dict[str, Any]:
    cols = [str(c) for c in df.columns]
    return {
        "columns": cols,
        "dtypes": [str(t) for t in df.dtypes],
        "index": [_cell(v) for v in df.index.tolist()],
        "index_dtype": str(df.index.dtype),
        "data": [[_cell(v) for v in df.iloc[:, j].tolist()] for j in range(df.shape[1])],
        "nrow": int(df.shape[0]),
    }


def _loose(c) -> Any:
    """loose value: None ~ NaN ~ NA, 1 == 1.0 == True, -0.0 == 0.0"""
    t = c[0]
    if t in ("none", "nan", "na"):
        return ("null",)
    if t == "b":
        return ("num", float(c[1]))
    if t == "i":
        return ("num", float(c[1]))
    if t == "f":
        return ("num", float(c[1]) + 0.0)
    return (t, c[1])


def _norm(c) -> Any:
    """result equality: exactly what 'equal' can mean for two frames of the same dtypes: -0.0 == 0.0 and
    None ~ NaN in the same cell are equal values (DataFrame.equals agrees); nothing else is loosened"""
    t = c[0]
    if t in ("none", "nan", "na"):
        return ["null"]
    if t == "f":
        return ["f", repr(float(c[1]) + 0.0)]
    return c


def result_equal(a: Dict[str, Any], b: Dict[str, Any]) -> bool:
    if a == b:
        return True
    for k in ("columns", "dtypes", "index_dtype", "nrow"):
        if a[k] != b[k]:
            return False
    if [_norm(x) for x in a["index"]] != [_norm(x) for x in b["index"]]:
        return False
    for ca, cb in zip(a["data"], b["data"]):
        if [_norm(x) for x in ca] != [_norm(x) for x in cb]:
            return False
    return True


def relation(a: Dict[str, Any], b: Dict[str, Any]) -> str:
    if a == b:
        return "identical"
    if a["nrow"] != b["nrow"] or a["columns"] != b["columns"]:
        return "differ"
    for ca, cb in zip(a["data"], b["data"]):
        for x, y in zip(ca, cb):
            if _loose(x) != _loose(y):
                return "differ"
    return "grey"


def key_relation(ka, kb) -> str:
    """ka, kb: (model_name, sql, {name: spec})"""
    if ka[0] != kb[0] or ka[1] != kb[1]:
        return "differ"
    if sorted(ka[2]) != sorted(kb[2]):
        return "differ"
    rel = "identical"
    for n in sorted(ka[2]):
        r = relation(ka[2][n], kb[2][n])
        if r == "differ":
            return "differ"
        if r == "grey":
            rel = "grey"
    return rel


# ---------------------------------------------------------------- generation --------------------------
MUTATIONS = ["setcell", "addcol", "dropcol", "sort", "reset_index", "rename", "setcol", "reindex_labels"]


def generate(run_seed: int, cfg: Dict[str, Any]) -> Dict[str, Any]:
    r = stream(run_seed, "ops")
    rd = stream(run_seed, "data")
    rf = stream(run_seed, "faults")
    rk = stream(run_seed, "knobs")
    faulty = bool(cfg.get("faulty", run_seed % 2 == 1))
    n_ops = rk.randint(cfg.get("min_ops", 5), cfg.get("max_ops", 40))
    n_bases = rk.choice([1, 2, 3])
    bases = rd.sample(BASES, n_bases)
    if rk.random() < 0.12:
        # a frame large enough that a hash over a sample / a prefix of the rows or columns would not see every cell
        nbig = rk.choice([40, 130, 400, 2600, 12500])  # 12500: beyond a 10 000-row block / batch / sample
        ncol = rk.choice([3, 9]) if nbig < 1000 else (2 if nbig < 10000 else 1)
        big = {"cols": [{"name": "k", "dtype": None, "values": [f"s{i % 7}" for i in range(nbig)]}]
               + [{"name": f"v{j}", "dtype": "int64" if j % 2 == 0 else "float64",
                   "values": [((i * (j + 3)) % 11) if j % 2 == 0 else ((i * (j + 5)) % 13) / 4.0 for i in range(nbig)]}
                  for j in range(ncol)], "index": None}
        bases = bases[: max(1, n_bases - 1)] + [big]
    grey_rate = rk.choice([0.0, 0.15, 0.3])
    # a catalogue of frame specs: bases, exact duplicates, single-difference variants, grey variants
    catalogue: List[Dict[str, Any]] = []
    for b in bases:
        catalogue.append(b)
        for _ in range(rk.choice([2, 3, 4])):
            if rd.random() < grey_rate:
                catalogue.append(vary(b, rd.choice(GREY_VARIANTS), rd))
            else:
                catalogue.append(vary(b, rd.choice(DIFFER_VARIANTS), rd))
    pool_init = [rd.randrange(len(catalogue)) for _ in range(N_POOL)]
    n_sql = rk.choice([1, 2, len(SQLS)])
    n_names = rk.choice([1, 2, 3])
    mut_rate = rk.choice([0.1, 0.25, 0.4]) if faulty else 0.0
    restart_rate = rk.choice([0.0, 0.05, 0.1]) if faulty else 0.0
    ops: List[Dict[str, Any]] = []
    for _ in range(n_ops):
        u = rf.random()
        if u < mut_rate:
            ops.append({"op": "mutate", "f": r.randrange(N_POOL), "how": r.choice(MUTATIONS), "a": r.randrange(4)})
            continue
        if u < mut_rate + restart_rate:
            ops.append({"op": "restart"})
            continue
        k = r.random()
        if k < 0.12:
            ops.append({"op": "refresh", "f": r.randrange(N_POOL), "spec": r.randrange(len(catalogue))})
            continue
        prev = [o for o in ops if o["op"] == "store" and len(o["key"]["dm"]) == 2]
        if prev and r.random() < 0.08:
            # the same two frames under swapped table names: a different data map
            pk = prev[-1]["key"]
            (n1, f1), (n2, f2) = pk["dm"]
            ops.append({"op": "get", "key": {"model": pk["model"], "sql": pk["sql"], "dm": [[n1, f2], [n2, f1]]},
                        "dst": r.randrange(N_POOL)})
            continue
        nm = r.sample(NAMES[:n_names], min(n_names, r.choice([1, 1, 2, 3])) if n_names > 1 else 1)
        if r.random() < 0.3:
            nm = list(reversed(nm))
        dm = [[n, r.randrange(N_POOL)] for n in nm]
        key = {"model": r.choice(MODELS), "sql": r.randrange(n_sql), "dm": dm}
        if k < 0.55:
            ops.append({"op": "store", "key": key, "res": r.randrange(N_POOL)})
        else:
            ops.append({"op": "get", "key": key, "dst": r.randrange(N_POOL)})
    return {"prop": PROP, "seed": run_seed, "faulty": faulty, "catalogue": catalogue, "pool_init": pool_init, "ops": ops}


# ---------------------------------------------------------------- execution ---------------------------
def mutate_in_place(df, how: str, a: int) -> bool:
    """legal caller behaviour on a frame the caller owns; returns True when something changed"""
    n, m = df.shape
    if how == "setcell":
        if n == 0 or m == 0:
            return False
        i, j = a % n, (a // 2) % m
        v = df.iat[i, j]
        if isinstance(v, str):
            df.iat[i, j] = v + "!"
        elif isinstance(v, (bool,)) or str(df.dtypes.iloc[j]) == "bool":
            df.iat[i, j] = not bool(v)
        elif v is None or (isinstance(v, float) and math.isnan(v)):
            if str(df.dtypes.iloc[j]).startswith("float"):
                df.iat[i, j] = 3.5
            else:
                return False
        else:
            df.iat[i, j] = v + 1
        return True
    if how == "addcol":
        name = f"m{a}"
        if name in df.columns:
            return False
        df[name] = a
        return True
    if how == "dropcol":
        if m < 2:
            return False
        df.drop(columns=[df.columns[a % m]], inplace=True)
        return True
    if how == "sort":
        if n < 2 or m == 0:
            return False
        df.sort_values(by=[df.columns[a % m]], ascending=False, inplace=True, kind="stable")
        return True
    if how == "reset_index":
        df.reset_index(drop=True, inplace=True)
        return True
    if how == "rename":
        if m == 0:
            return False
        c = df.columns[a % m]
        df.rename(columns={c: str(c) + "_r"}, inplace=True)
        return True
    if how == "setcol":
        if m == 0 or n == 0:
            return False
        c = df.columns[a % m]
        if str(df[c].dtype) in ("int64", "float64"):
            df[c] = df[c] * 2 + 1
            return True
        return False
    if how == "reindex_labels":
        if n == 0:
            return False
        df.index = [100 + a + 2 * i for i in range(n)]
        return True
    raise ValueError(how)


def _models():
    import data_algebra.PostgreSQL
    import data_algebra.SQLite

    return {"sqlite_a": data_algebra.SQLite.SQLiteModel(), "sqlite_b": data_algebra.SQLite.SQLiteModel(),
            "postgres": data_algebra.PostgreSQL.PostgreSQLModel()}


class Entry:
    def __init__(self, key, snap):
        self.key = key
        self.acceptable = [snap]
        self.may_miss = False  # set by a restart: persistence is not part of the stated property


def _run(scn, log: EventLog, stats: Stats):
    import data_algebra.eval_cache

    models = _models()
    cat = scn["catalogue"]
    pool = [build_frame(cat[i]) for i in scn["pool_init"]]
    cache = data_algebra.eval_cache.ResultCache()
    entries: List[Entry] = []
    kinds: List[str] = []
    restarted = False
    for step, op in enumerate(scn["ops"]):
        name = op["op"]
        kinds.append(name)
        log.emit("client", name, op)
        if name == "mutate":
            try:
                changed = mutate_in_place(pool[op["f"]], op["how"], op["a"])
            except Exception as ex:  # pandas refusing a mutation is no business of the cache
                changed = False
                stats.probe("mutation-refused-by-pandas")
            if changed:
                stats.fault("alias-mutate")
        elif name == "refresh":
            pool[op["f"]] = build_frame(cat[op["spec"]])
        elif name == "restart":
            try:
                cache = pickle.loads(pickle.dumps(cache))
            except Exception as ex:
                raise Violation((PROP, "restart", "pickle-failed", type(ex).__name__), repr(ex)[:300], step)
            stats.fault("restart")
            restarted = True
            for e in entries:
                e.may_miss = True
        else:
            kj = op["key"]
            dm = {n: pool[i] for n, i in kj["dm"]}
            key = (type(models[kj["model"]]).__name__, SQLS[kj["sql"]], {n: frame_spec(f) for n, f in dm.items()})
            pre_specs = {n: frame_spec(f) for n, f in dm.items()}
            rels = [(e, key_relation(key, e.key)) for e in entries]
            if name == "store":
                res = pool[op["res"]]
                snap = frame_spec(res)
                try:
                    cache.store(db_model=models[kj["model"]], sql=str(SQLS[kj["sql"]]), data_map=dm, res=res)
                except Exception as ex:
                    raise Violation((PROP, "store", "unexpected-exception", type(ex).__name__), repr(ex)[:300], step)
                if frame_spec(res) != snap:
                    raise Violation((PROP, "store", "mutated-res-argument"), "", step)
                found = False
                for e, rel in rels:
                    if rel == "identical":
                        e.acceptable = [snap]
                        e.may_miss = False
                        found = True
                        stats.probe("overwrite-existing-key")
                    elif rel == "grey":
                        e.acceptable.append(snap)
                        stats.probe("store-grey-neighbour")
                if not found:
                    entries.append(Entry(key, snap))
                stats.nontrivial = True
            else:
                hit = None
                try:
                    hit = cache.get(db_model=models[kj["model"]], sql=str(SQLS[kj["sql"]]), data_map=dm)
                except KeyError:
                    hit = None
                except Exception as ex:
                    raise Violation((PROP, "get", "unexpected-exception", type(ex).__name__), repr(ex)[:300], step)
                cands = [(e, rel) for e, rel in rels if rel in ("identical", "grey")]
                ident = [e for e, rel in cands if rel == "identical"]
                if hit is None:
                    if ident and not ident[0].may_miss:
                        raise Violation((PROP, "get", "miss-on-identical-key"),
                                        f"key {kj} was stored with identical content and must be found", step)
                    if ident:
                        stats.probe("miss-after-restart")
                    elif cands:
                        stats.probe("grey-miss")
                    else:
                        stats.probe("must-miss-missed")
                else:
                    got = frame_spec(hit)
                    if not cands:
                        why = _why_differs(key, entries)
                        raise Violation((PROP, "get", "false-hit", why),
                                        f"key {kj} differs from every stored key ({why}) but the lookup succeeded", step)
                    acc: List[Any] = []
                    for e in (ident if ident else [e for e, _ in cands]):
                        acc.extend(e.acceptable)
                    if not any(result_equal(got, s) for s in acc):
                        raise Violation((PROP, "get", "wrong-result", "identical-key" if ident else "grey-key"),
                                        f"returned frame {got} is not the stored snapshot(s) {acc}", step)
                    for n, f in dm.items():
                        if hit is f:
                            raise Violation((PROP, "get", "returned-argument-object"), "", step)
                    if ident:
                        stats.probe("hit-after-restart" if restarted else "hit")
                    else:
                        stats.probe("grey-hit")
                    pool[op["dst"]] = hit  # the client owns the returned copy from now on
            post = {n: frame_spec(f) for n, f in dm.items()}
            if post != pre_specs:
                raise Violation((PROP, name, "mutated-data_map-argument"), "", step)
        stats.state([[e.key[0], e.key[1], sorted(e.key[2])] + [len(e.acceptable)] for e in entries])
    stats.ops_trigrams(kinds)


def _why_differs(key, entries) -> str:
    """classify the nearest stored key (for the signature): dialect / sql / names / table-content"""
    best = "nothing-stored"
    for e in entries:
        if e.key[0] != key[0]:
            w = "dialect"
        elif e.key[1] != key[1]:
            w = "sql"
        elif sorted(e.key[2]) != sorted(key[2]):
            w = "table-names"
        else:
            w = "table-content"
        order = ["nothing-stored", "dialect", "sql", "table-names", "table-content"]
        if order.index(w) > order.index(best):
            best = w
    return best


def execute(scn: Dict[str, Any]) -> Dict[str, Any]:
    log, stats = EventLog(), Stats()
    try:
        _run(scn, log, stats)
    except Violation as v:
        return result_violation(v, log, stats)
    return result_ok(log, stats)


# ---------------------------------------------------------------- minimisation hooks ------------------
LIST_FIELDS = ["ops"]


def truncate(scn, step):
    scn["ops"] = scn["ops"][: step + 1]
    return scn


def reductions(scn):
    # data_map with two tables -> one table
    for i, op in enumerate(scn["ops"]):
        if op["op"] in ("store", "get") and len(op["key"]["dm"]) > 1:
            for k in range(len(op["key"]["dm"])):
                c = _copy.deepcopy(scn)
                del c["ops"][i]["key"]["dm"][k]
                yield c
    # drop rows / columns of catalogue frames
    for ci, spec in enumerate(scn["catalogue"]):
        n = nrows(spec)
        for i in range(n):
            c = _copy.deepcopy(scn)
            for col in c["catalogue"][ci]["cols"]:
                del col["values"][i]
            if c["catalogue"][ci]["index"] is not None:
                del c["catalogue"][ci]["index"][i]
            yield c
        if len(spec["cols"]) > 1:
            for j in range(len(spec["cols"])):
                c = _copy.deepcopy(scn)
                del c["catalogue"][ci]["cols"][j]
                yield c


def sample_view(scn):
    return {"seed": scn["seed"], "faulty": scn["faulty"], "n_ops": len(scn["ops"]),
            "catalogue_frames": len(scn["catalogue"]), "first_ops": scn["ops"][:10]}


# ---------------------------------------------------------------- check metadata ----------------------
LEVEL = "exploration"
LOG_HASHSEED_INDEPENDENT = True
TIERS = {
    "quick": {"runs": 6400, "gen": {"min_ops": 5, "max_ops": 40}, "soft_deadline_s": 150, "hard_timeout_s": 500,
              "n_echo": 16},
    "thorough": {"runs": 120000, "gen": {"min_ops": 5, "max_ops": 60}, "soft_deadline_s": 1500, "hard_timeout_s": 2400,
                 "n_echo": 64},
}
RULE = ("one evaluation = one seeded history of 5-40 (thorough: 5-60) events over a real ResultCache and a pool of 8 "
        "live caller-owned pandas frames: store, get, refresh (rebind a pool slot to a freshly built frame), and - on odd "
        "run-seeds - F6 in-place mutation of an owned frame (stored res, data_map member, returned copy) and F7 restart "
        "(pickle round trip). Keys range over 2 dialects (3 model instances), 4 SQL texts, 1-2 of 3 table names, and "
        "frames that are identical / differ in one named way / grey. distinct = distinct scenario digest; non-trivial = "
        "the history contains at least one store.")
EXPECTED_PROBES = ["hit", "must-miss-missed", "overwrite-existing-key", "hit-after-restart", "grey-miss"]
COMPONENTS = {"real": ["data_algebra.eval_cache (hash_data_frame, make_cache_key, ResultCache)", "pandas", "pickle"],
              "model": ["list of (key content spec, acceptable snapshots) with a three-valued key relation"],
              "stub": [], "not_run": ["gzip file of tests/conftest.py (restart is an in-memory pickle round trip)"]}
ASSUMPTIONS = [
    "seeded sampling of histories, not enumeration",
    "frames that differ only in dtype, index labels, -0.0 vs 0.0, 1 vs True or None vs NaN are treated as don't-care "
    "(the property does not say whether they share a key)",
    "column order is treated as part of 'column name' (two frames whose columns are permuted must not share a key)",
    "a lookup for an identically rebuilt key must hit while the process lives; after a restart a miss is tolerated",
    "hash collisions of hash_pandas_object+SHA-256 are not searched for",
]
