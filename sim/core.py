"""
Shared simulator core: seeded streams, canonical digests, event log, verdict types.

Rules (DESIGN 3.1):
 * every random choice is drawn from stream(run_seed, name); string seeding goes through SHA-512 inside
   random.Random, so it does not depend on PYTHONHASHSEED;
 * generate(run_seed) -> scenario (plain JSON); execute(scenario) never draws a random number;
 * logging never draws, never reads a clock, never iterates a set, never uses id() or default reprs.
"""

import hashlib
import json
import math
import random
from typing import Any, Dict, List, Optional, Tuple


class SimAbort(Exception):
    """The injected fault. Derives from Exception on purpose: a real I/O error or a dying callback is an
    ordinary exception, and code that swallows ordinary exceptions must be observable."""


class HarnessError(Exception):
    """Something is wrong with the harness itself (never reported as a VIOLATION)."""


class Violation(Exception):
    """An oracle failed. signature: tuple of short strings naming call site + discrepancy class."""

    def __init__(self, signature: Tuple[str, ...], detail: str = "", step: Optional[int] = None):
        super().__init__("|".join(signature) + ": " + detail)
        self.signature = tuple(str(s) for s in signature)
        self.detail = detail
        self.step = step


def stream(run_seed: int, name: str) -> random.Random:
    return random.Random(f"{run_seed}/{name}")


def _canon(o: Any) -> Any:
    if o is None or isinstance(o, (bool, str)):
        return o
    if isinstance(o, int):
        return o
    if isinstance(o, float):
        if math.isnan(o):
            return None
        if o == int(o) and abs(o) < 2**53:
            return repr(float(o))
        return repr(o)
    if isinstance(o, (list, tuple)):
        return [_canon(x) for x in o]
    if isinstance(o, dict):
        return {str(k): _canon(v) for k, v in o.items()}
    raise HarnessError(f"non-canonical value in digest: {type(o)}")


def canon_json(o: Any) -> str:
    return json.dumps(_canon(o), sort_keys=True, separators=(",", ":"), ensure_ascii=True)


def digest(o: Any, n: int = 16) -> str:
    return hashlib.sha256(canon_json(o).encode("ascii")).hexdigest()[:n]


class EventLog:
    """(seq, actor, kind, payload-digest) tuples; seq is the simulator's only notion of time."""

    def __init__(self, keep: bool = False):
        self.seq = 0
        self._h = hashlib.sha256()
        self.keep = keep
        self.events: List[Tuple[int, str, str, str]] = []

    def emit(self, actor: str, kind: str, payload: Any = None) -> int:
        self.seq += 1
        d = digest(payload, 12) if payload is not None else "-"
        self._h.update(f"{self.seq}\t{actor}\t{kind}\t{d}\n".encode("ascii"))
        if self.keep:
            self.events.append((self.seq, actor, kind, d))
        return self.seq

    def digest(self) -> str:
        return self._h.hexdigest()[:24]


class Stats:
    """Per-run reach counters: faults that actually fired, named probes, model-state digests."""

    def __init__(self):
        self.faults_fired: Dict[str, int] = {}
        self.probes: Dict[str, int] = {}
        self.states: List[str] = []
        self.trigrams: List[str] = []
        self.nontrivial = False

    def fault(self, kind: str, n: int = 1):
        self.faults_fired[kind] = self.faults_fired.get(kind, 0) + n

    def probe(self, name: str, n: int = 1):
        self.probes[name] = self.probes.get(name, 0) + n

    def state(self, o: Any):
        self.states.append(digest(o, 12))

    def ops_trigrams(self, kinds: List[str]):
        for i in range(len(kinds) - 2):
            self.trigrams.append(">".join(kinds[i : i + 3]))


def result_ok(log: EventLog, stats: Stats) -> Dict[str, Any]:
    return {
        "verdict": "ok",
        "log": log.digest(),
        "steps": log.seq,
        "faults": stats.faults_fired,
        "probes": stats.probes,
        "states": stats.states,
        "trigrams": stats.trigrams,
        "nontrivial": stats.nontrivial,
    }


def result_violation(v: Violation, log: EventLog, stats: Stats) -> Dict[str, Any]:
    r = result_ok(log, stats)
    r.update({"verdict": "violation", "sig": list(v.signature), "detail": v.detail[:2000], "step": v.step})
    return r


def sig_str(sig) -> str:
    return "|".join(sig)


def fresh_models():
    """Simulated process restart for the library's process-global state: the registry of data-model objects
    (data_algebra.data_model.data_model_type_map) is emptied and re-filled with brand-new PandasModel / PolarsModel
    instances, so no run inherits hidden state a previous run in the same lane left on them (which would both make
    runs depend on their lane neighbours and vaccinate later runs against state-leak defects)."""
    import data_algebra.data_model
    import data_algebra.pandas_model
    import data_algebra.polars_model

    data_algebra.data_model.data_model_type_map.clear()
    data_algebra.pandas_model.register_pandas_model()
    data_algebra.polars_model.register_polars_model()
    from data_algebra.data_schema import SchemaCheckSwitch

    try:
        SchemaCheckSwitch().on()
    except Exception:
        pass
    # One trivial evaluation per frame type with the freshly registered default models passed explicitly: whatever
    # association "frame type -> model" the library may keep outside the registry now points at the new defaults, as it
    # would in a new process (public API only; a no-op for the behaviour of the pinned tree).
    try:
        import pandas as pd
        import polars as pl
        from data_algebra.data_ops import descr

        tiny = pd.DataFrame({"x": [1]})
        dm = data_algebra.data_model.data_model_type_map
        descr(d=tiny).eval({"d": tiny}, data_model=dm["default_Pandas_model"])
        descr(d=pl.DataFrame(tiny)).eval({"d": pl.DataFrame(tiny)}, data_model=dm["default_Polars_model"])
        descr(d=pl.DataFrame(tiny)).eval({"d": pl.DataFrame(tiny).lazy()}, data_model=dm["default_Polars_model"])
    except Exception:
        pass
