"""
The simulator's "disk and network": a sqlite3.Connection subclass through which every statement of
data_algebra / pandas passes (DESIGN 2.2, 3.3, 3.4).

    conn = sqlite3.connect(":memory:", factory=SimConnection); conn.sim = DBSim(log, stats)

One statement = one event (re-entrancy guard: Connection.execute -> self.cursor() -> SimCursor.execute is
counted once).  DBSim decides, per statement of the current operation, whether it runs, fails instead of
running (F1 stmt-error / F3 commit-fail) or is interrupted mid-way by the engine (F2 stmt-interrupt via
set_progress_handler, armed and disarmed around exactly one statement).
"""

import sqlite3
from typing import Any, Dict, List, Optional


def stmt_kind(sql: str) -> str:
    s = sql.strip().split()
    if not s:
        return "EMPTY"
    k = s[0].upper()
    if k in ("CREATE", "DROP") and len(s) > 1:
        k = k + " " + s[1].upper()
        if k == "CREATE TABLE" and " AS " in sql.upper().replace("\n", " "):
            k = "CREATE TABLE AS"
    if k == "--" or k.startswith("--"):
        # annotated SQL starts with a comment line: classify by the first non-comment token
        for line in sql.splitlines():
            t = line.strip()
            if t and not t.startswith("--"):
                return stmt_kind(t)
    if k == "WITH":
        return "SELECT"
    if k == "SELECT" and "SQLITE_MASTER" in sql.upper():
        return "SELECT sqlite_master"
    return k


class DBSim:
    """fault plan + statement log for one connection"""

    def __init__(self, log, stats):
        self.log = log
        self.stats = stats
        self.inspecting = 0
        self.op_index: Optional[int] = None
        self.stmt_no = 0
        self.plan: Dict[int, List[Dict[str, Any]]] = {}  # op index -> faults
        self.fired: List[Dict[str, Any]] = []
        self.op_statements: List[str] = []

    def begin_op(self, op_index: int):
        self.op_index = op_index
        self.stmt_no = 0
        self.op_statements = []

    def end_op(self):
        self.op_index = None

    def on_statement(self, kind: str) -> Optional[Dict[str, Any]]:
        """called before each statement; returns the fault to apply or None"""
        if self.inspecting or self.op_index is None:
            return None
        n = self.stmt_no
        self.stmt_no += 1
        self.op_statements.append(kind)
        self.log.emit("db", "stmt", {"op": self.op_index, "n": n, "kind": kind})
        for f in self.plan.get(self.op_index, []):
            if f.get("done"):
                continue
            hit = False
            if "n" in f and f["n"] == n:
                hit = True
            elif "at" in f and f["at"] == kind and f.get("occurrence", 0) == sum(
                    1 for k in self.op_statements[:-1] if k == kind):
                hit = True
            if hit:
                if f["kind"] == "commit-fail" and kind != "COMMIT":
                    continue
                if f["kind"] in ("stmt-error", "stmt-interrupt") and kind in ("COMMIT", "ROLLBACK"):
                    if f["kind"] == "stmt-interrupt" or kind == "ROLLBACK":
                        continue
                f["done"] = True
                return f
        return None

    def note_fired(self, f: Dict[str, Any], kind: str):
        self.fired.append({"kind": f["kind"], "stmt": kind, "op": self.op_index})
        self.stats.fault(f["kind"])
        self.stats.probe("fault@" + kind)
        self.log.emit("sim", "fault-fired", {"kind": f["kind"], "stmt": kind, "op": self.op_index})


class SimCursor(sqlite3.Cursor):
    def execute(self, sql, parameters=()):
        return self.connection._stmt(stmt_kind(sql), lambda: super(SimCursor, self).execute(sql, parameters))

    def executemany(self, sql, seq):
        seq = list(seq)
        return self.connection._stmt(stmt_kind(sql) + " many", lambda: super(SimCursor, self).executemany(sql, seq))

    def executescript(self, script):
        return self.connection._stmt("SCRIPT", lambda: super(SimCursor, self).executescript(script))


class SimConnection(sqlite3.Connection):
    def __init__(self, *a, **k):
        super().__init__(*a, **k)
        self.sim: Optional[DBSim] = None
        self._depth = 0

    def cursor(self, factory=None):
        return super().cursor(SimCursor)

    def _stmt(self, kind: str, run):
        if self._depth > 0 or self.sim is None:
            return run()
        self._depth += 1
        try:
            f = self.sim.on_statement(kind)
            if f is None:
                return run()
            if f["kind"] in ("stmt-error", "commit-fail"):
                self.sim.note_fired(f, kind)
                raise sqlite3.OperationalError(f.get("msg", "disk I/O error"))
            if f["kind"] == "stmt-interrupt":
                budget = [int(f.get("m", 0))]
                tripped = [False]

                def handler():
                    if budget[0] <= 0:
                        tripped[0] = True
                        return 1
                    budget[0] -= 1
                    return 0

                self.set_progress_handler(handler, 1)
                try:
                    return run()
                finally:
                    self.set_progress_handler(None, 0)
                    if tripped[0]:
                        self.sim.note_fired(f, kind)
                    else:
                        self.sim.stats.probe("interrupt-armed-but-statement-finished")
            raise ValueError(f["kind"])
        finally:
            self._depth -= 1

    def execute(self, sql, parameters=()):
        return self._stmt(stmt_kind(sql), lambda: super(SimConnection, self).execute(sql, parameters))

    def executemany(self, sql, seq):
        seq = list(seq)
        return self._stmt(stmt_kind(sql) + " many", lambda: super(SimConnection, self).executemany(sql, seq))

    def executescript(self, script):
        return self._stmt("SCRIPT", lambda: super(SimConnection, self).executescript(script))

    def commit(self):
        return self._stmt("COMMIT", lambda: super(SimConnection, self).commit())

    def rollback(self):
        return self._stmt("ROLLBACK", lambda: super(SimConnection, self).rollback())


def connect(log, stats) -> SimConnection:
    conn = sqlite3.connect(":memory:", factory=SimConnection)
    conn.sim = DBSim(log, stats)
    return conn
